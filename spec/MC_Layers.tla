----------------------------- MODULE MC_Layers -----------------------------
(* Templates and JSON emission for Layers.tla. *)
EXTENDS Layers, Json

SetToSeq(S) == LET RECURSIVE F(_)
                   F(T) == IF T = {} THEN <<>> ELSE LET x == CHOOSE y \in T : \A z \in T : y <= z IN <<x>> \o F(T \ {x})
               IN F(S)
NamesSeq == LET RECURSIVE F(_)
                F(T) == IF T = {} THEN <<>> ELSE LET x == CHOOSE y \in T : TRUE IN <<x>> \o F(T \ {x})
            IN F(Names)
CpSeq(S) == LET RECURSIVE F(_)
                F(T) == IF T = {} THEN <<>> ELSE LET x == CHOOSE y \in T : TRUE IN <<x>> \o F(T \ {x})
            IN F(S)
Emit == Done => PrintT(ToJson([
    types |-> Template,
    rev |-> Rev,
    parents |-> [i \in 1..N |-> SetToSeq(parents[i])],
    defs |-> [i \in 1..N |-> CpSeq(defs[i])],
    ni |-> [i \in 1..N |-> [j \in 1..Len(SetToSeq(parents[i])) |-> <<SetToSeq(parents[i])[j], CpSeq(ni[i][SetToSeq(parents[i])[j]])>>]],
    cps |-> [i \in 1..N |-> CpSeq(cps[i])],
    clash |-> AnyClash,
    view |-> [i \in 1..N |-> [j \in 1..Len(NamesSeq) |-> <<NamesSeq[j], View(i, NamesSeq[j], TRUE), View(i, NamesSeq[j], FALSE)>>]],
    eff |-> [i \in 1..N |-> [j \in 1..Len(CpSeq(CpKeys)) |-> <<CpSeq(CpKeys)[j], Effective(i)[CpSeq(CpKeys)[j]]>>]],
    lookup |-> [i \in 1..N |-> {<<q[1], q[2], Lookup(i, q[1], q[2])>> : q \in {"cp1", "cpx"} \X {"", "L1", "L2"}}]
  ]))
=============================================================================
