------------------------------- MODULE Snoop -------------------------------
(***************************************************************************)
(* The session machine of the snoop tool (odxtools/cli/snoop.py,           *)
(* handle_telegram): telegrams reassembled from the bus (IsoTp.tla) are    *)
(* attributed with Dispatch.tla - a tester telegram on its own, an ECU     *)
(* telegram in the context of the most recent tester telegram that could   *)
(* be decoded.                                                             *)
(*                                                                         *)
(* State: last = that request (or None).  One action per telegram:         *)
(*   Tester(p)   decodable  -> class "decoded",  last' = p                 *)
(*               otherwise  -> class "raw",      last' = None              *)
(*   Ecu(p)      "response pending" (7F xx 78) -> class "pending"          *)
(*               an object of a service that last belongs to matches p     *)
(*                          -> class "recognized"                          *)
(*               no object of any service can match p, or last = None      *)
(*                          -> class "unrecognized"                        *)
(*               (trailing bytes nothing describes: "any", as in Dispatch) *)
(*               last is unchanged by ECU telegrams                        *)
(* The class is what the user reads; processing a telegram never fails.    *)
(***************************************************************************)
EXTENDS Dispatch

CONSTANTS SnoopLayer,      \* the layer the session is decoded with: [services, gnrs]
          TesterMsgs,      \* telegram alphabet on the ECU's receive ID
          EcuMsgs,         \* telegram alphabet on the ECU's send ID
          Depth            \* telegrams per session

VARIABLES last, hist
svars == <<phase, layer, last, hist>>

None == <<-1>>             \* no request in context (no telegram is <<-1>>)

Pending(p) == Len(p) >= 3 /\ p[1] = 127 /\ p[3] = 120
Decodable(l, p) == Must(l, p) # {}
Undecodable(l, p) == MustNot(l, p) = {s.name : s \in l.services}

TesterClass(l, p) == IF Decodable(l, p) THEN "decoded" ELSE IF Undecodable(l, p) THEN "raw" ELSE "any"
\* services the request in context belongs to, and of those the ones an object of which matches the answer
Context(l, r) == IF r = None THEN {} ELSE Must(l, r)
Answering(l, r, p) == {s.name : s \in {x \in l.services : x.name \in Context(l, r) /\ SvcMatch(x, l.gnrs, p) = "yes"}}
EcuClass(l, r, p) == IF Pending(p) THEN "pending"
                     ELSE IF Answering(l, r, p) # {} THEN "recognized"
                     ELSE IF r = None \/ MustNot(l, p) = {s.name : s \in l.services} THEN "unrecognized"
                     ELSE "any"

SnoopInit == phase = "done" /\ layer = SnoopLayer /\ last = None /\ hist = <<>>
Tester(p) == /\ Len(hist) < Depth
             /\ hist' = Append(hist, [side |-> "tester", p |-> p, class |-> TesterClass(layer, p), ctx |-> last])
             \* (an "any" telegram may or may not be taken as context: sessions are cut there)
             /\ TesterClass(layer, p) # "any"
             /\ last' = IF Decodable(layer, p) THEN p ELSE None
             /\ UNCHANGED <<phase, layer>>
Ecu(p) == /\ Len(hist) < Depth
          /\ hist' = Append(hist, [side |-> "ecu", p |-> p, class |-> EcuClass(layer, last, p), ctx |-> last])
          /\ UNCHANGED <<phase, layer, last>>
SnoopNext == (\E p \in TesterMsgs : Tester(p)) \/ (\E p \in EcuMsgs : Ecu(p))
SnoopSpec == SnoopInit /\ [][SnoopNext]_svars

(* design-level properties *)
\* the context is the most recent tester telegram iff that one could be decoded
RECURSIVE LastTester(_)
LastTester(h) == IF h = <<>> THEN None
                 ELSE IF h[Len(h)].side = "tester" THEN (IF h[Len(h)].class = "decoded" THEN h[Len(h)].p ELSE None)
                 ELSE LastTester(SubSeq(h, 1, Len(h) - 1))
ContextIsLatest == last = LastTester(hist)
\* nothing is recognized without a request in context, nor after a tester telegram that could not be decoded
RecognizedNeedsContext == \A i \in 1..Len(hist) : hist[i].class = "recognized" => hist[i].ctx # None
\* an ECU telegram (a pending one in particular) never changes the context
EcuKeepsContext == [][(\E p \in EcuMsgs : Ecu(p)) => last' = last]_svars
=============================================================================
