-------------------------- MODULE NamedItemList --------------------------
(***************************************************************************)
(* odxtools.nameditemlist.NamedItemList: a Python list plus a dictionary   *)
(* name -> item.  One action per public mutator.  The step relations are   *)
(* pure predicates over (pre, post) so that the model (primed variables)   *)
(* and the trace validator (logged post-states) use the same definitions.  *)
(*                                                                         *)
(* Two naming policies:                                                    *)
(*   Det = TRUE   the implementation-shaped choice: first free of          *)
(*                base, base_2, base_3, ... (base2, base3 if base ends     *)
(*                with an underscore) - used to generate behaviours that   *)
(*                are replayed into the real object;                       *)
(*   Det = FALSE  ANY legal uniquification - what property C16 states.     *)
(***************************************************************************)
EXTENDS Integers, Sequences, FiniteSets, SequencesExt, TLC

CONSTANTS MaxLen,      \* bound on the list length in the model
          Items,       \* subset of 1..10 used by the model
          Det,         \* naming policy, see above
          CopyKinds    \* subset of {"copy","copycopy","deepcopy","pickle"}

VARIABLES items,       \* Seq(item key): the list view
          names,       \* [name string -> item key]: the dictionary view
          hascopy,     \* a second list exists (made by a copy-like action)
          items2, names2

vars == <<items, names, hascopy, items2, names2>>

---------------------------------------------------------------------------
(* The item alphabet.  Base = short name in identifier-safe form.          *)
(* 1,2: two different items called "a";  3,4: two EQUAL (==) items "e";    *)
(* 5: "append" (a method of list);  6: short name "1x" (digit-leading);    *)
(* 7: short name "class" (keyword);  8: "a_2" (collides with a generated   *)
(* name);  9: "x_" (trailing underscore);  10: "items" (a method that the   *)
(* named item list adds on top of list).                                   *)
Base == <<"a", "a", "e", "e", "append", "_1x", "_class", "a_2", "x_", "items">>
EqClass == <<1, 2, 3, 3, 5, 6, 7, 8, 9, 10>>
MaxSuffix == 12

\* Sfx[b][n]: base b uniquified with number n (n = 1: b itself). TLA+ strings are atoms,
\* so the table is written out.
Sfx == [b \in {"a", "e", "append", "_1x", "_class", "a_2", "x_", "items"} |->
  CASE b = "a" -> <<"a","a_2","a_3","a_4","a_5","a_6","a_7","a_8","a_9","a_10","a_11","a_12">>
    [] b = "e" -> <<"e","e_2","e_3","e_4","e_5","e_6","e_7","e_8","e_9","e_10","e_11","e_12">>
    [] b = "append" -> <<"append","append_2","append_3","append_4","append_5","append_6","append_7",
                         "append_8","append_9","append_10","append_11","append_12">>
    [] b = "_1x" -> <<"_1x","_1x_2","_1x_3","_1x_4","_1x_5","_1x_6","_1x_7","_1x_8","_1x_9","_1x_10",
                      "_1x_11","_1x_12">>
    [] b = "_class" -> <<"_class","_class_2","_class_3","_class_4","_class_5","_class_6","_class_7",
                         "_class_8","_class_9","_class_10","_class_11","_class_12">>
    [] b = "a_2" -> <<"a_2","a_2_2","a_2_3","a_2_4","a_2_5","a_2_6","a_2_7","a_2_8","a_2_9","a_2_10",
                      "a_2_11","a_2_12">>
    [] b = "x_" -> <<"x_","x_2","x_3","x_4","x_5","x_6","x_7","x_8","x_9","x_10","x_11","x_12">>
    [] b = "items" -> <<"items","items_2","items_3","items_4","items_5","items_6","items_7","items_8","items_9",
                        "items_10","items_11","items_12">>]

\* attribute names of the list type that an item name could shadow
Methods == {"append", "insert", "extend", "remove", "pop", "clear", "copy", "keys", "values", "items",
            "get", "sort", "reverse", "index", "count"}

Cand(i) == {Sfx[Base[i]][n] : n \in 1..MaxSuffix}
Empty == <<>>

LegalChoices(nm, i) == {n \in Cand(i) : n \notin DOMAIN nm /\ n \notin Methods}
FirstFree(nm, i) ==
    LET free(k) == Sfx[Base[i]][k] \notin DOMAIN nm /\ Sfx[Base[i]][k] \notin Methods
        k0 == CHOOSE k \in 1..MaxSuffix : free(k) /\ \A j \in 1..(k - 1) : ~free(j)
    IN  Sfx[Base[i]][k0]
NameChoices(nm, i) == IF Det THEN {FirstFree(nm, i)} ELSE LegalChoices(nm, i)

Without(nm, n) == [m \in DOMAIN nm \ {n} |-> nm[m]]
NameOf(nm, i) == CHOOSE n \in DOMAIN nm : nm[n] = i

RECURSIVE RebuildDet(_, _)
RebuildDet(s, acc) == IF s = <<>> THEN acc
                      ELSE RebuildDet(Tail(s), acc @@ (FirstFree(acc, Head(s)) :> Head(s)))

---------------------------------------------------------------------------
(* Step relations (pre it,nm ; post it2,nm2)                               *)

RegRel(nm, i, nm2) == \E n \in NameChoices(nm, i) : nm2 = nm @@ (n :> i)

\* each relation is split into the list part and the names part
AppendList(it, i, it2) == it2 = Append(it, i)
AppendRel(it, nm, i, it2, nm2) == AppendList(it, i, it2) /\ RegRel(nm, i, nm2)

\* k is a Python index 0..len
InsertList(it, k, i, it2) == it2 = InsertAt(it, k + 1, i)
InsertRel(it, nm, k, i, it2, nm2) == InsertList(it, k, i, it2) /\ RegRel(nm, i, nm2)

ExtendList(it, i, j, it2) == it2 = it \o <<i, j>>
ExtendRel(it, nm, i, j, it2, nm2) == /\ ExtendList(it, i, j, it2)
                                     /\ \E n1 \in NameChoices(nm, i) : RegRel(nm @@ (n1 :> i), j, nm2)

\* list.remove(x) removes the first element EQUAL to x; exactly that element's name goes away
FirstEq(it, i) == CHOOSE k \in 1..Len(it) : /\ EqClass[it[k]] = EqClass[i]
                                            /\ \A j \in 1..(k - 1) : EqClass[it[j]] # EqClass[i]
HasEq(it, i) == \E k \in 1..Len(it) : EqClass[it[k]] = EqClass[i]

RemoveList(it, i, it2) == HasEq(it, i) /\ it2 = RemoveAt(it, FirstEq(it, i))
HasName(nm, i) == \E n \in DOMAIN nm : nm[n] = i
RemoveRel(it, nm, i, it2, nm2) == /\ RemoveList(it, i, it2)
                                  /\ HasName(nm, it[FirstEq(it, i)])
                                  /\ nm2 = Without(nm, NameOf(nm, it[FirstEq(it, i)]))

\* k is a Python index 0..len-1
PopList(it, k, it2) == k + 1 \in 1..Len(it) /\ it2 = RemoveAt(it, k + 1)
PopRel(it, nm, k, it2, nm2) == /\ PopList(it, k, it2)
                               /\ HasName(nm, it[k + 1])
                               /\ nm2 = Without(nm, NameOf(nm, it[k + 1]))

ClearRel(it2, nm2) == it2 = <<>> /\ DOMAIN nm2 = {}

---------------------------------------------------------------------------
(* C16 *)
Consistent(it, nm) ==
    /\ Cardinality(DOMAIN nm) = Len(it)
    /\ \A k \in 1..Len(it) : \E n \in DOMAIN nm : nm[n] = it[k]     \* every item has a name
    /\ \A n \in DOMAIN nm : nm[n] \in Range(it)                     \* no name for an absent item
    /\ \A n \in DOMAIN nm : n \in Cand(nm[n])                       \* legal, identifier-safe form
    /\ DOMAIN nm \cap Methods = {}                                  \* no method is shadowed
NoDup(it) == \A j, k \in 1..Len(it) : j # k => it[j] # it[k]

---------------------------------------------------------------------------
Init == items = <<>> /\ names = Empty /\ hascopy = FALSE /\ items2 = <<>> /\ names2 = Empty

Fresh(i) == i \in Items /\ i \notin Range(items)

DoAppend(i) == /\ Fresh(i) /\ Len(items) < MaxLen
               /\ AppendRel(items, names, i, items', names')
               /\ UNCHANGED <<hascopy, items2, names2>>
DoInsert(k, i) == /\ Fresh(i) /\ Len(items) < MaxLen /\ k \in 0..Len(items)
                  /\ InsertRel(items, names, k, i, items', names')
                  /\ UNCHANGED <<hascopy, items2, names2>>
DoExtend(i, j) == /\ Fresh(i) /\ Fresh(j) /\ i # j /\ Len(items) + 2 <= MaxLen
                  /\ ExtendRel(items, names, i, j, items', names')
                  /\ UNCHANGED <<hascopy, items2, names2>>
DoRemove(i) == /\ i \in Items
               /\ RemoveRel(items, names, i, items', names')
               /\ UNCHANGED <<hascopy, items2, names2>>
DoPop(k) == /\ PopRel(items, names, k, items', names')
            /\ UNCHANGED <<hascopy, items2, names2>>
DoClear == /\ items # <<>>
           /\ items' = <<>> /\ names' = Empty
           /\ UNCHANGED <<hascopy, items2, names2>>
\* .copy() keeps the dictionary; copy.copy / deepcopy / pickle rebuild the names by re-appending
DoCopy(kind) == /\ kind \in CopyKinds
                /\ hascopy' = TRUE /\ items2' = items
                /\ names2' = IF kind = "copy" THEN names ELSE RebuildDet(items, Empty)
                /\ UNCHANGED <<items, names>>

Next == \/ \E i \in Items : DoAppend(i)
        \/ \E i \in Items, k \in 0..MaxLen : DoInsert(k, i)
        \/ \E i, j \in Items : DoExtend(i, j)
        \/ \E i \in Items : DoRemove(i)
        \/ \E k \in 0..(MaxLen - 1) : DoPop(k)
        \/ DoClear
        \/ \E kind \in CopyKinds : DoCopy(kind)

Spec == Init /\ [][Next]_vars

---------------------------------------------------------------------------
InvConsistent == Consistent(items, names)
InvCopyConsistent == hascopy => Consistent(items2, names2)
InvNoDup == NoDup(items)
\* the implementation-shaped choice is one of the legal ones
InvDetIsLegal == \A i \in Items : i \notin Range(items) /\ Len(items) < MaxLen
                                    => FirstFree(names, i) \in LegalChoices(names, i)
\* names of untouched items never change
NamesStable == [][\A n \in DOMAIN names : n \in DOMAIN names' => names'[n] = names[n]]_vars
=============================================================================
