------------------------------ MODULE IsoTp ------------------------------
(***************************************************************************)
(* ISO 15765-2 segmentation (sender side, from the standard), a CAN bus    *)
(* that interleaves the frames of several IDs and can damage them, and     *)
(* the reassembler of odxtools.isotp_state_machine (receiver side, shaped  *)
(* like the implementation: one case per frame type).                      *)
(*                                                                         *)
(* Two layers:                                                             *)
(*  - RxStep: the implementation-shaped receiver, deterministic;           *)
(*  - the ghost monitor (GhostStep / Judge): what properties C12 and C13   *)
(*    allow and demand for ANY receiver, written without reference to     *)
(*    RxStep.  It is evaluated by TLC on the model and, by IsoTpTrace, on   *)
(*    executions of the real code.                                         *)
(***************************************************************************)
EXTENDS IsoTpCore

CONSTANTS NIds,         \* receive IDs are 1..NIds
          TxDl,         \* frame size: 8 classic CAN, 12..64 CAN FD
          Lens,         \* Lens[i] = sequence of telegram lengths sent on ID i
          Pad,          \* TRUE: pad every frame to the frame size with 0xCC
          FaultBudget,  \* how many fault actions may happen
          NoiseBudget,  \* how many flow-control / unrelated frames may be interleaved
          Active        \* TRUE: model the active decoder's flow-control answers as well

VARIABLES toSend,       \* [1..NIds -> Seq(frame)]  frames not yet on the bus, per ID
          rx,           \* [1..NIds -> receiver state]
          ghost,        \* [1..NIds -> monitor state]
          delivered,    \* [1..NIds -> Seq(telegram)] reported so far
          faults, noise,
          lastId, lastFrame, out,   \* the frame just processed and what was reported for it
          fc,           \* number of flow-control frames the active decoder sent for that frame
          verdict       \* "ok" or the name of the monitor clause the last step violated

vars == <<toSend, rx, ghost, delivered, faults, noise, lastId, lastFrame, out, fc, verdict>>

Ids == 1..NIds

---------------------------------------------------------------------------
(* Sender: ISO 15765-2 segmentation                                        *)

\* distinguishable payload bytes
Byte(i, t, k) == (i * 67 + t * 29 + k) % 251
Telegram(i, t) == [k \in 1..Lens[i][t] |-> Byte(i, t, k)]

DlcSizes == {8, 12, 16, 20, 24, 32, 48, 64}
Dlc(n) == CHOOSE s \in DlcSizes : s >= n /\ \A u \in DlcSizes : u >= n => s <= u
FrameLen(n) == IF n > 8 THEN Dlc(n) ELSE IF Pad THEN 8 ELSE n
Padded(f) == f \o [k \in 1..(FrameLen(Len(f)) - Len(f)) |-> 204]

SfMax == IF TxDl = 8 THEN 7 ELSE TxDl - 2
Sf(t) == Padded(IF Len(t) <= 7 THEN <<Len(t)>> \o t ELSE <<0, Len(t)>> \o t)
Ff(t) == <<16 + (Len(t) \div 256), Len(t) % 256>> \o SubSeq(t, 1, TxDl - 2)
NumCf(t) == ((Len(t) - (TxDl - 2)) + (TxDl - 2)) \div (TxDl - 1)   \* ceil((len-(TxDl-2))/(TxDl-1))
Cf(t, n) == Padded(<<32 + (n % 16)>> \o
                   SubSeq(t, (TxDl - 2) + (n - 1) * (TxDl - 1) + 1, Min2(Len(t), (TxDl - 2) + n * (TxDl - 1))))
Segment(t) == IF Len(t) <= SfMax THEN <<Sf(t)>>
              ELSE <<Ff(t)>> \o [n \in 1..NumCf(t) |-> Cf(t, n)]

RECURSIVE Flatten(_)
Flatten(ss) == IF ss = <<>> THEN <<>> ELSE Head(ss) \o Flatten(Tail(ss))
AllFrames(i) == Flatten([t \in 1..Len(Lens[i]) |-> Segment(Telegram(i, t))])
Sent(i) == [t \in 1..Len(Lens[i]) |-> Telegram(i, t)]

---------------------------------------------------------------------------
Init == /\ toSend = [i \in Ids |-> AllFrames(i)]
        /\ rx = [i \in Ids |-> RxInit]
        /\ ghost = [i \in Ids |-> GhostInit]
        /\ delivered = [i \in Ids |-> <<>>]
        /\ faults = 0 /\ noise = 0
        /\ lastId = 0 /\ lastFrame = <<>> /\ out = <<>>
        /\ fc = 0
        /\ verdict = "ok"

\* frame f of ID i reaches the receiver
Process(i, f) ==
    LET s == RxStep(rx[i], f) IN
    /\ rx' = [rx EXCEPT ![i] = s.r]
    /\ out' = s.out
    /\ delivered' = [delivered EXCEPT ![i] = delivered[i] \o s.out]
    /\ verdict' = Judge(ghost[i], f, s.out)
    /\ ghost' = [ghost EXCEPT ![i] = GhostAfter(ghost[i], f, s.out)]
    /\ fc' = (IF Active THEN s.fc ELSE 0)
    /\ lastId' = i /\ lastFrame' = f

Deliver(i) == /\ toSend[i] # <<>>
              /\ Process(i, Head(toSend[i]))
              /\ toSend' = [toSend EXCEPT ![i] = Tail(toSend[i])]
              /\ UNCHANGED <<faults, noise>>

\* a flow-control frame shows up on ID i (sent by the peer for the opposite direction)
FlowControl(i) == /\ noise < NoiseBudget
                  /\ Process(i, Padded(<<48, 0, 0>>))
                  /\ noise' = noise + 1
                  /\ UNCHANGED <<toSend, faults>>

\* a frame of an ID the reassembler does not listen to: nothing may change
Unrelated == /\ noise < NoiseBudget
             /\ noise' = noise + 1
             /\ lastId' = 0 /\ lastFrame' = <<2, 17, 34>> /\ out' = <<>> /\ verdict' = "ok" /\ fc' = 0
             /\ UNCHANGED <<toSend, rx, ghost, delivered, faults>>

(* Faults: they change what is still to be sent; delivery stays a separate step *)
Fault(i, q) == /\ faults < FaultBudget
               /\ faults' = faults + 1
               /\ toSend' = [toSend EXCEPT ![i] = q]
               /\ UNCHANGED <<rx, ghost, delivered, noise, lastId, lastFrame, out, fc, verdict>>
Drop(i) == toSend[i] # <<>> /\ Fault(i, Tail(toSend[i]))
Duplicate(i) == toSend[i] # <<>> /\ Fault(i, <<Head(toSend[i])>> \o toSend[i])
Swap(i) == Len(toSend[i]) >= 2 /\ Fault(i, <<toSend[i][2], toSend[i][1]>> \o SubSeq(toSend[i], 3, Len(toSend[i])))
Truncate(i, k) == /\ toSend[i] # <<>> /\ k < Len(Head(toSend[i]))
                  /\ Fault(i, <<SubSeq(Head(toSend[i]), 1, k)>> \o Tail(toSend[i]))
Corrupt(i, v) == /\ toSend[i] # <<>> /\ Head(toSend[i]) # <<>> /\ Head(toSend[i])[1] # v
                 /\ Fault(i, <<[Head(toSend[i]) EXCEPT ![1] = v]>> \o Tail(toSend[i]))
Inject(i, f) == Fault(i, <<f>> \o toSend[i])

TruncLens == {0, 1, 2, 3}
PciValues == {0, 3, 16, 33, 34, 48, 64, 255}
Injected == {<<33, 170, 187>>, <<34, 170>>, <<48, 0, 0>>, <<>>, <<16, 10, 1, 2, 3, 4, 5, 6>>, <<2, 17, 34>>}

Next == \/ \E i \in Ids : Deliver(i)
        \/ \E i \in Ids : FlowControl(i)
        \/ Unrelated
        \/ \E i \in Ids : Drop(i) \/ Duplicate(i) \/ Swap(i)
        \/ \E i \in Ids, k \in TruncLens : Truncate(i, k)
        \/ \E i \in Ids, v \in PciValues : Corrupt(i, v)
        \/ \E i \in Ids, f \in Injected : Inject(i, f)

Spec == Init /\ [][Next]_vars

---------------------------------------------------------------------------
(* C13: the receiver never violates the monitor, whatever the faults *)
MonitorOk == verdict = "ok"

(* C12: without faults, exactly the transmitted telegrams, in order, each once *)
InOrder == faults = 0 => \A i \in Ids : IsPrefix(delivered[i], Sent(i))
AllDelivered == (faults = 0 /\ \A i \in Ids : toSend[i] = <<>>) => \A i \in Ids : delivered[i] = Sent(i)
\* a frame of ID a never changes the state of ID b
NoCrossTalk == [][\A b \in Ids : b # lastId' => rx'[b] = rx[b] /\ delivered'[b] = delivered[b]]_vars
\* the active decoder answers every first frame with a flow-control frame
FcPerFf == (Active /\ lastId # 0 /\ Kind(lastFrame) = "FF" /\ Len(lastFrame) >= 2) => fc >= 1
TypeOk == /\ \A i \in Ids : rx[i].sn \in 0..15 /\ rx[i].len \in 0..4095
          /\ faults \in 0..FaultBudget /\ noise \in 0..NoiseBudget
=============================================================================
