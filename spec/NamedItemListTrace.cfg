SPECIFICATION TraceSpec
CONSTANTS
  MaxLen = 100
  Items = {1,2,3,4,5,6,7,8,9,10}
  Det = FALSE
  CopyKinds = {"copy", "copycopy", "deepcopy", "pickle"}
POSTCONDITION TraceAccepted
CHECK_DEADLOCK FALSE
