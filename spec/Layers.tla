------------------------------- MODULE Layers -------------------------------
(***************************************************************************)
(* ODX value inheritance (MCD-2 D 7.3.2.4) and inheritance of              *)
(* communication parameters over a hierarchy of diagnostic layers.         *)
(*                                                                         *)
(* A configuration is built layer by layer (action Configure): layer i has *)
(* the type Template[i], a set of parents among the earlier layers whose   *)
(* type it may inherit from, a set of locally defined object names, per    *)
(* parent a NOT-INHERITED subset, and local communication parameters.      *)
(*                                                                         *)
(* View is the DECLARATIVE statement of C09: local definitions win; else   *)
(* among the definitions arriving through the parents (minus exclusions)   *)
(* the ones from the parent type of highest priority; two distinct         *)
(* definitions of equal priority are a clash.  Merge is the               *)
(* implementation-shaped recursive merge (parents in descending priority); *)
(* TLC checks that both agree and that the order in which layers are       *)
(* finalized is irrelevant (a view only depends on the layers below).      *)
(* A definition is identified by the index of the layer that defines it.   *)
(***************************************************************************)
EXTENDS Integers, Sequences, FiniteSets, TLC

CONSTANTS Template,        \* sequence of layer types, parents before children
          Names,           \* object names, e.g. {"o"}
          CpKeys,          \* comparam keys <<name, protocol qualifier or "">> that may be set locally
          MaxCp,           \* at most this many local comparams per layer
          Rev              \* the PARENT-REFs of a layer are written in descending (TRUE) or ascending (FALSE) layer order

VARIABLES k, parents, defs, ni, cps
vars == <<k, parents, defs, ni, cps>>
N == Len(Template)

Prio(t) == CASE t = "PROTOCOL" -> 1 [] t = "FUNCTIONAL-GROUP" -> 2 [] t = "BASE-VARIANT" -> 3
             [] t = "ECU-VARIANT" -> 4 [] OTHER -> 100                       \* ECU-SHARED-DATA overrides every other parent
MayInherit(child, parent) ==
    \/ parent = "ECU-SHARED-DATA" /\ child # "ECU-SHARED-DATA"
    \/ parent = "PROTOCOL" /\ child \in {"FUNCTIONAL-GROUP", "BASE-VARIANT"}
    \/ parent = "FUNCTIONAL-GROUP" /\ child = "BASE-VARIANT"
    \/ parent = "BASE-VARIANT" /\ child = "ECU-VARIANT"

Absent == 0
Clash == -1

---------------------------------------------------------------------------
(* C09, declaratively.  useNi = FALSE for the categories without NOT-INHERITED lists. *)
RECURSIVE View(_, _, _)
View(i, n, useNi) ==
    IF n \in defs[i] THEN i
    ELSE LET arriving == {<<View(j, n, useNi), Prio(Template[j])>> :
                            j \in {p \in parents[i] : ~(useNi /\ n \in ni[i][p]) /\ View(p, n, useNi) # Absent}}
         IN IF arriving = {} THEN Absent
            ELSE LET mx == CHOOSE m \in {a[2] : a \in arriving} : \A a \in arriving : a[2] <= m
                     top == {a[1] : a \in {b \in arriving : b[2] = mx}}
                 IN IF Cardinality(top) = 1 /\ Clash \notin top THEN CHOOSE d \in top : TRUE ELSE Clash
\* a clash anywhere (also in a layer nobody looks at) makes loading fail
AnyClash == \E i \in 1..k, n \in Names, u \in BOOLEAN : View(i, n, u) = Clash

(* the implementation-shaped merge: parents in descending priority, first arrival wins unless a later one has the
   same priority and is a different definition *)
RECURSIVE Merge(_, _, _), MergeParents(_, _, _, _, _)
SortedParents(i) ==    \* a sequence of the parents, highest priority first (ties: by index)
    LET ps == parents[i]
        RECURSIVE Sort(_)
        Sort(S) == IF S = {} THEN <<>>
                   ELSE LET best == CHOOSE p \in S : \A q \in S : Prio(Template[q]) < Prio(Template[p]) \/
                                                            (Prio(Template[q]) = Prio(Template[p]) /\ p <= q)
                        IN <<best>> \o Sort(S \ {best})
    IN Sort(ps)
\* acc = <<definition, priority of the parent it came through>> or <<Absent, 0>>
MergeParents(i, n, useNi, ps, acc) ==
    IF ps = <<>> THEN acc[1]
    ELSE LET p == Head(ps)
             v == IF useNi /\ n \in ni[i][p] THEN Absent ELSE Merge(p, n, useNi)
             pr == Prio(Template[p])
         IN IF v = Absent THEN MergeParents(i, n, useNi, Tail(ps), acc)
            ELSE IF acc[1] = Absent THEN MergeParents(i, n, useNi, Tail(ps), <<v, pr>>)
            ELSE IF pr < acc[2] THEN MergeParents(i, n, useNi, Tail(ps), acc)
            ELSE IF v = acc[1] /\ v # Clash THEN MergeParents(i, n, useNi, Tail(ps), acc)
            ELSE Clash
Merge(i, n, useNi) == IF n \in defs[i] THEN i ELSE MergeParents(i, n, useNi, SortedParents(i), <<Absent, 0>>)

---------------------------------------------------------------------------
(* C15: communication parameters.  Key = <<name, protocol qualifier>>, value = defining layer.      *)
(* Parents are merged from low to high priority (ECU-SHARED-DATA does not take part), local last;   *)
(* among parents of EQUAL priority the one written later in the document wins (the order in which   *)
(* parents of different priority are written is irrelevant).                                        *)
RECURSIVE Effective(_)
WrittenNoLater(q, p) == IF Rev THEN p <= q ELSE q <= p
CpParents(i) == {p \in parents[i] : Template[p] # "ECU-SHARED-DATA"}
Effective(i) ==
    LET fromParents ==
          [key \in CpKeys |->
              LET have == {p \in CpParents(i) : Effective(p)[key] # Absent} IN
              IF have = {} THEN Absent
              ELSE LET best == CHOOSE p \in have : \A q \in have : Prio(Template[q]) < Prio(Template[p]) \/
                                                         (Prio(Template[q]) = Prio(Template[p]) /\ WrittenNoLater(q, p))
                   IN Effective(best)[key]]
    IN [key \in CpKeys |-> IF key \in cps[i] THEN i ELSE fromParents[key]]
\* lookup by name and protocol: the protocol-specific definition before the generic one
Lookup(i, name, proto) ==
    LET e == Effective(i) IN
    IF proto # "" /\ <<name, proto>> \in CpKeys /\ e[<<name, proto>>] # Absent THEN <<e[<<name, proto>>], proto>>
    ELSE IF <<name, "">> \in CpKeys /\ e[<<name, "">>] # Absent THEN <<e[<<name, "">>], "">>
    ELSE <<Absent, "">>

---------------------------------------------------------------------------
Init == k = 0 /\ parents = <<>> /\ defs = <<>> /\ ni = <<>> /\ cps = <<>>
Configure(ps, ds, nis, cs) ==
    /\ k < N
    /\ \A p \in ps : MayInherit(Template[k + 1], Template[p])
    /\ k' = k + 1
    /\ parents' = Append(parents, ps) /\ defs' = Append(defs, ds) /\ ni' = Append(ni, nis) /\ cps' = Append(cps, cs)
Next == \E ps \in SUBSET (1..k), ds \in SUBSET Names, cs \in {c \in SUBSET CpKeys : Cardinality(c) <= MaxCp} :
           \E nis \in [ps -> SUBSET Names] : Configure(ps, ds, nis, cs)
Spec == Init /\ [][Next]_vars
Done == k = N

(* design-level invariants *)
MergeIsView == \A i \in 1..k, n \in Names, u \in BOOLEAN : Merge(i, n, u) = View(i, n, u)
\* adding a layer never changes the view of an earlier one ("a parent's view is never altered by its children")
ParentsUnaffected == [][\A i \in 1..k, n \in Names, u \in BOOLEAN : View(i, n, u)' = View(i, n, u)]_vars
LocalWins == \A i \in 1..k, n \in Names : n \in defs[i] => View(i, n, TRUE) = i
=============================================================================
