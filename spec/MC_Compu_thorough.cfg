SPECIFICATION SpecThorough
INVARIANT InjectiveIsInjective
INVARIANT InverseInverts
INVARIANT MonContCovers
INVARIANT Emit
