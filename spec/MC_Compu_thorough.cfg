SPECIFICATION Spec
CONSTANT Family <- FamThorough
INVARIANT InjectiveIsInjective
INVARIANT InverseInverts
INVARIANT MonContCovers
INVARIANT Emit
