------------------------------ MODULE Rational ------------------------------
(***************************************************************************)
(* Exact rational arithmetic for the compu-method reference: a rational is *)
(* <<n, d>> with d > 0 (not necessarily reduced; comparison is by cross    *)
(* multiplication).  All numbers of the compu families are small, so the   *)
(* 32-bit integers of TLC are never exceeded.                              *)
(***************************************************************************)
EXTENDS Integers

R(n) == <<n, 1>>
Norm(a) == IF a[2] < 0 THEN <<-a[1], -a[2]>> ELSE a
RAdd(a, b) == <<a[1] * b[2] + b[1] * a[2], a[2] * b[2]>>
RSub(a, b) == <<a[1] * b[2] - b[1] * a[2], a[2] * b[2]>>
RMul(a, b) == <<a[1] * b[1], a[2] * b[2]>>
RDiv(a, b) == Norm(<<a[1] * b[2], a[2] * b[1]>>)         \* b # 0
REq(a, b) == a[1] * b[2] = b[1] * a[2]
RLt(a, b) == a[1] * b[2] < b[1] * a[2]
RLe(a, b) == a[1] * b[2] <= b[1] * a[2]
RIsZero(a) == a[1] = 0
RIsInt(a) == a[1] % a[2] = 0
RFloor(a) == a[1] \div a[2]                              \* floor, since d > 0
\* nearest integers; both neighbours at an exact tie (round-half-even and round-half-up are both "nearest")
Nearest(a) == LET f == RFloor(a)
                  r == a[1] - f * a[2]                   \* 0 <= r < d
              IN  IF 2 * r < a[2] THEN {f} ELSE IF 2 * r > a[2] THEN {f + 1} ELSE {f, f + 1}
\* small gcd for printing reduced fractions
RECURSIVE Gcd(_, _)
Gcd(a, b) == IF b = 0 THEN (IF a < 0 THEN -a ELSE a) ELSE Gcd(b, a % b)
Reduce(a) == LET g == Gcd(a[1], a[2]) IN IF g = 0 THEN <<0, 1>> ELSE <<a[1] \div g, a[2] \div g>>
=============================================================================
