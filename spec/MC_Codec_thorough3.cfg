CONSTANT Wrong = FALSE
SPECIFICATION SpecThorough3
INVARIANT RoundTrip
INVARIANT ConsumesWholePdu
INVARIANT UndescribedBitsZero
INVARIANT StaticLenExact
INVARIANT PrefixIsPrefix
INVARIANT RequiredIffOmissionFails
INVARIANT TruncatedRejected
INVARIANT Emit
