-------------------------------- MODULE Bits --------------------------------
(***************************************************************************)
(* Bit-level representation rules of ODX (MCD-2 D 7.3.6.2/3) used by the   *)
(* codec reference: unsigned / two's complement / one's complement /       *)
(* sign-magnitude / packed and unpacked BCD integers, byte fields, and the *)
(* code units of ISO-8859-1, UTF-8 and UCS-2 text.  Bit strings are        *)
(* sequences over {0,1}, most significant bit first.                       *)
(*                                                                         *)
(* Integers: TLC integers are 32 bit, so a value is either                 *)
(*   [t |-> "int", v |-> k]        with |k| < 2^30, or                     *)
(*   [t |-> "tok", name |-> name]     a boundary of the n-bit range:          *)
(*        MAXU = 2^n-1   MAXS = 2^(n-1)-1   MINS = -2^(n-1)                *)
(*        MINS1 = -(2^(n-1)-1)   OVERU = 2^n   OVERS = 2^(n-1)             *)
(*        UNDERS = -2^(n-1)-1                                               *)
(* whose bit pattern is written down directly.                             *)
(***************************************************************************)
EXTENDS Integers, Sequences

Zeros(n) == [i \in 1..n |-> 0]
Ones(n) == [i \in 1..n |-> 1]
Inv(b) == [i \in 1..Len(b) |-> 1 - b[i]]
RECURSIVE UBits(_, _)
UBits(v, n) == IF n = 0 THEN <<>> ELSE UBits(v \div 2, n - 1) \o <<v % 2>>      \* n-bit pattern of v >= 0
RECURSIVE Inc(_)
Inc(b) == IF b = <<>> THEN <<>>
          ELSE IF b[Len(b)] = 0 THEN SubSeq(b, 1, Len(b) - 1) \o <<1>>
          ELSE Inc(SubSeq(b, 1, Len(b) - 1)) \o <<0>>
RECURSIVE UVal(_)
UVal(b) == IF b = <<>> THEN 0 ELSE 2 * UVal(SubSeq(b, 1, Len(b) - 1)) + b[Len(b)]   \* only for values < 2^31
RECURSIVE Pow2(_)
Pow2(n) == IF n = 0 THEN 1 ELSE 2 * Pow2(n - 1)
RECURSIVE BitLength(_)
BitLength(k) == IF k = 0 THEN 0 ELSE 1 + BitLength(k \div 2)          \* number of significant bits of k >= 0
AllZero(b) == \A i \in 1..Len(b) : b[i] = 0
AllOne(b) == \A i \in 1..Len(b) : b[i] = 1
Fits(k, n) == n >= 31 \/ k < Pow2(n)               \* 0 <= k < 2^n
RECURSIVE Digits(_)
Digits(v) == IF v < 10 THEN <<v>> ELSE Digits(v \div 10) \o <<v % 10>>
RECURSIVE FlatMap4(_)
FlatMap4(ds) == IF ds = <<>> THEN <<>> ELSE UBits(Head(ds), 4) \o FlatMap4(Tail(ds))
RECURSIVE FlatMap8(_)
FlatMap8(ds) == IF ds = <<>> THEN <<>> ELSE UBits(Head(ds), 8) \o FlatMap8(Tail(ds))

No == [ok |-> FALSE, bits |-> <<>>]
Yes(b) == [ok |-> TRUE, bits |-> b]
\* right-align a pattern in n bits if its significant bits fit
FirstOne(b) == CHOOSE i \in 1..Len(b) : b[i] = 1 /\ \A j \in 1..(i - 1) : b[j] = 0
FitBits(full, n) == IF AllZero(full) THEN Yes(Zeros(n))
                    ELSE LET sig == SubSeq(full, FirstOne(full), Len(full)) IN
                         IF Len(sig) <= n THEN Yes(Zeros(n - Len(sig)) \o sig) ELSE No

(* the n-bit pattern of integer value val for base type / encoding, or "not representable" *)
\* "DEFAULT" = the description names no BASE-TYPE-ENCODING: two's complement for A_INT32, plain binary for A_UINT32
IntBits(val, base, enc0, n) ==
    LET enc == IF enc0 = "DEFAULT" THEN (IF base = "int" THEN "2C" ELSE "NONE") ELSE enc0 IN
    IF n = 0 THEN (IF val.t = "int" /\ val.v = 0 THEN Yes(<<>>) ELSE No) ELSE      \* zero bits hold the value 0 only
    IF val.t = "tok" THEN
       (CASE val.name = "MAXU" -> IF base = "uint" /\ enc = "NONE" THEN Yes(Ones(n)) ELSE No
          [] val.name = "MAXS" -> IF base = "int" THEN Yes(<<0>> \o Ones(n - 1))
                               ELSE IF enc = "NONE" THEN Yes(<<0>> \o Ones(n - 1)) ELSE No
          [] val.name = "MINS" -> IF base = "int" /\ enc = "2C" THEN Yes(<<1>> \o Zeros(n - 1)) ELSE No
          [] val.name = "MINS1" -> IF base # "int" THEN No
                                ELSE IF n = 1 THEN Yes(<<0>>)           \* -(2^0 - 1) = 0
                                ELSE (CASE enc = "2C" -> Yes(<<1>> \o Zeros(n - 2) \o <<1>>)
                                        [] enc = "1C" -> Yes(<<1>> \o Zeros(n - 1))
                                        [] OTHER -> Yes(Ones(n)))
          [] OTHER -> No)                                   \* OVERU, OVERS, UNDERS: outside the range
    ELSE LET k == val.v IN
    IF base = "uint" THEN
        (IF k < 0 THEN No
         ELSE (CASE enc = "NONE" -> IF Fits(k, n) THEN Yes(UBits(k, n)) ELSE No
                 [] enc = "BCD-P" -> IF k = 0 THEN Yes(Zeros(n)) ELSE FitBits(FlatMap4(Digits(k)), n)   \* one nibble per digit
                 [] enc = "BCD-UP" -> IF k = 0 THEN Yes(Zeros(n)) ELSE FitBits(FlatMap8(Digits(k)), n)  \* one byte per digit
                 [] OTHER -> No))
    ELSE \* signed
        (IF k >= 0 THEN (IF Fits(k, n - 1) THEN Yes(UBits(k, n)) ELSE No)
         ELSE (CASE enc = "2C" -> IF n >= 32 \/ -k <= Pow2(n - 1) THEN Yes(Inc(Inv(UBits(-k, n)))) ELSE No
                 [] enc = "1C" -> IF Fits(-k, n - 1) THEN Yes(Inv(UBits(-k, n))) ELSE No
                 [] enc = "SM" -> IF Fits(-k, n - 1) THEN Yes(<<1>> \o UBits(-k, n - 1)) ELSE No
                 [] OTHER -> No))

(* the value of an n-bit pattern; "wide" when it does not fit a TLC integer *)
Small(b) == Len(b) <= 30 \/ AllZero(SubSeq(b, 1, Len(b) - 30))
Low(b) == IF Len(b) <= 30 THEN UVal(b) ELSE UVal(SubSeq(b, Len(b) - 29, Len(b)))
IntV(k) == [t |-> "int", v |-> k]
Wide(b) == [t |-> "wide", b |-> b]
RECURSIVE Bcd(_, _)
\* decimal digits from the right: one digit per w bits (w = 4 packed, 8 unpacked), the digit is the low nibble
Bcd(b, w) == IF b = <<>> THEN 0
             ELSE LET lo == SubSeq(b, IF Len(b) > 4 THEN Len(b) - 3 ELSE 1, Len(b))
                      rest == IF Len(b) > w THEN SubSeq(b, 1, Len(b) - w) ELSE <<>>
                  IN 10 * Bcd(rest, w) + UVal(lo)
BitsInt(b, base, enc0) ==
    LET enc == IF enc0 = "DEFAULT" THEN (IF base = "int" THEN "2C" ELSE "NONE") ELSE enc0 IN
    IF b = <<>> THEN IntV(0) ELSE
    IF base = "uint" THEN
       (CASE enc = "NONE" -> IF Small(b) THEN IntV(Low(b)) ELSE Wide(b)
          [] enc = "BCD-P" -> IF Len(b) <= 32 THEN IntV(Bcd(b, 4)) ELSE Wide(b)
          [] enc = "BCD-UP" -> IF Len(b) <= 64 THEN IntV(Bcd(b, 8)) ELSE Wide(b)
          [] OTHER -> Wide(b))
    ELSE IF b[1] = 0 THEN (IF Small(b) THEN IntV(Low(b)) ELSE Wide(b))
    ELSE LET m == (CASE enc = "2C" -> Inc(Inv(b)) [] enc = "1C" -> Inv(b) [] OTHER -> <<0>> \o Tail(b)) IN
         IF Small(m) /\ ~(enc = "2C" /\ AllZero(Tail(b)) /\ Len(b) > 30) THEN IntV(-Low(m)) ELSE Wide(b)

(* bytes <-> bits *)
RECURSIVE BytesBits(_)
BytesBits(bs) == IF bs = <<>> THEN <<>> ELSE UBits(Head(bs), 8) \o BytesBits(Tail(bs))
BitsBytes(b) == [i \in 1..(Len(b) \div 8) |-> UVal(SubSeq(b, 8 * i - 7, 8 * i))]
RevBytes(b) == LET w == Len(b) \div 8 IN
               [j \in 1..Len(b) |-> b[8 * (w - 1 - ((j - 1) \div 8)) + ((j - 1) % 8) + 1]]

(* text: sequences of code points <= 0xFFFF *)
Utf8(cp) == IF cp < 128 THEN <<cp>>
            ELSE IF cp < 2048 THEN <<192 + (cp \div 64), 128 + (cp % 64)>>
            ELSE <<224 + (cp \div 4096), 128 + ((cp \div 64) % 64), 128 + (cp % 64)>>
RECURSIVE TextBytes(_, _)
\* enc: "latin1" | "utf8" | "ucs2be" | "ucs2le"; latin1 cannot represent code points > 255 (result: <<-1>> marker)
TextBytes(cps, enc) ==
    IF cps = <<>> THEN <<>> ELSE
    LET c == Head(cps)
        h == (CASE enc = "latin1" -> IF c < 256 THEN <<c>> ELSE <<-1>>
                [] enc = "utf8" -> Utf8(c)
                [] enc = "ucs2be" -> <<c \div 256, c % 256>>
                [] OTHER -> <<c % 256, c \div 256>>)
    IN h \o TextBytes(Tail(cps), enc)
Encodable(cps, enc) == \A i \in 1..Len(TextBytes(cps, enc)) : TextBytes(cps, enc)[i] >= 0
\* decoding: total only on well-formed input; ok = FALSE otherwise
RECURSIVE Utf8Dec(_)
Utf8Dec(bs) ==
    IF bs = <<>> THEN [ok |-> TRUE, v |-> <<>>] ELSE
    LET b == bs[1] IN
    IF b < 128 THEN LET r == Utf8Dec(Tail(bs)) IN [ok |-> r.ok, v |-> <<b>> \o r.v]
    ELSE IF b >= 194 /\ b < 224 /\ Len(bs) >= 2 /\ bs[2] \div 64 = 2
         THEN LET r == Utf8Dec(SubSeq(bs, 3, Len(bs))) IN [ok |-> r.ok, v |-> <<((b - 192) * 64) + (bs[2] % 64)>> \o r.v]
    ELSE IF b >= 224 /\ b < 240 /\ Len(bs) >= 3 /\ bs[2] \div 64 = 2 /\ bs[3] \div 64 = 2
            /\ ((b - 224) * 4096) + ((bs[2] % 64) * 64) + (bs[3] % 64) >= 2048
            /\ ~((((b - 224) * 4096) + ((bs[2] % 64) * 64)) \in 55296..57343)
         THEN LET r == Utf8Dec(SubSeq(bs, 4, Len(bs))) IN
              [ok |-> r.ok, v |-> <<((b - 224) * 4096) + ((bs[2] % 64) * 64) + (bs[3] % 64)>> \o r.v]
    ELSE [ok |-> FALSE, v |-> <<>>]
BytesText(bs, enc) ==
    CASE enc = "latin1" -> [ok |-> TRUE, v |-> bs]
      [] enc = "utf8" -> Utf8Dec(bs)
      [] enc = "ucs2be" -> IF Len(bs) % 2 # 0 THEN [ok |-> FALSE, v |-> <<>>]
                           ELSE [ok |-> \A i \in 1..(Len(bs) \div 2) : ~(bs[2 * i - 1] \in 216..223),
                                 v |-> [i \in 1..(Len(bs) \div 2) |-> bs[2 * i - 1] * 256 + bs[2 * i]]]
      [] OTHER -> IF Len(bs) % 2 # 0 THEN [ok |-> FALSE, v |-> <<>>]
                  ELSE [ok |-> \A i \in 1..(Len(bs) \div 2) : ~(bs[2 * i] \in 216..223),
                        v |-> [i \in 1..(Len(bs) \div 2) |-> bs[2 * i] * 256 + bs[2 * i - 1]]]
=============================================================================
