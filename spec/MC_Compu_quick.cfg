SPECIFICATION Spec
CONSTANT Family <- FamQuick
INVARIANT InjectiveIsInjective
INVARIANT InverseInverts
INVARIANT MonContCovers
INVARIANT Emit
