SPECIFICATION SpecQuick
INVARIANT InjectiveIsInjective
INVARIANT InverseInverts
INVARIANT MonContCovers
INVARIANT Emit
