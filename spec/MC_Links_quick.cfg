SPECIFICATION Spec
CONSTANTS
  Ids = {"i"}
INVARIANT LocalNeverReplaced
INVARIANT ImportOnlyForImporter
INVARIANT DocrefIsExact
INVARIANT RetargetRebinds
INVARIANT Emit
