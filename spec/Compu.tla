------------------------------- MODULE Compu -------------------------------
(***************************************************************************)
(* Reference semantics of the ODX compu methods (MCD-2 D section 7.3.6.6)  *)
(* in exact rational arithmetic, and the families of configurations that   *)
(* TLC enumerates for properties C07 and C03.                              *)
(*                                                                         *)
(* A behaviour: Pick a configuration cm from Family (one action per        *)
(* configuration), then Emit.  The terminal state carries                  *)
(*   itab  for every internal probe x: is x valid, and the exact value of  *)
(*         the conversion (a rational q; an integral physical type may     *)
(*         take any element of Nearest(q)), or the text                    *)
(*   ptab  for every physical probe y: the set of exact internal values    *)
(*         the inverse formula admits                                      *)
(*   flags injective / moncont (monotone and continuous)                   *)
(* The harness builds the same method through ODX XML and compares.        *)
(***************************************************************************)
EXTENDS Rational, Sequences, FiniteSets, TLC

\* The configuration families are given by the next-state action of the model module (MC_Compu.tla).

VARIABLES phase, cm,
          itab, ptab       \* the tables of cm, evaluated once by the action Evaluate
vars == <<phase, cm, itab, ptab>>

NONE == -999
Absent == [k |-> "absent", v |-> 0]
Lim(k, v) == [k |-> k, v |-> v]

---------------------------------------------------------------------------
(* limits *)
\* INFINITEV: INTERVAL-TYPE="INFINITE" on a limit that nevertheless carries a value (the value is irrelevant)
InLower(l, x) == CASE l.k \in {"absent", "INFINITE", "INFINITEV"} -> TRUE
                   [] l.k = "OPEN" -> RLt(R(l.v), x)
                   [] OTHER -> RLe(R(l.v), x)              \* CLOSED, or no INTERVAL-TYPE given
InUpper(l, x) == CASE l.k \in {"absent", "INFINITE", "INFINITEV"} -> TRUE
                   [] l.k = "OPEN" -> RLt(x, R(l.v))
                   [] OTHER -> RLe(x, R(l.v))
InScale(s, x) == InLower(s.lo, x) /\ InUpper(s.hi, x)
\* TEXTTABLE: a scale with only one limit is a point
InTextScale(s, x) == IF s.hi.k = "absent" THEN REq(x, R(s.lo.v))
                     ELSE IF s.lo.k = "absent" THEN REq(x, R(s.hi.v))
                     ELSE InScale(s, x)

IsIntType(t) == t \in {"int", "uint"}
\* probes are <<n, d, py>>: value n/d handed over as a Python int (py = "int") or float (py = "float")
Admissible(t, p) == IF IsIntType(t) THEN p[3] = "int" ELSE TRUE
Val(p) == <<p[1], p[2]>>

---------------------------------------------------------------------------
(* polynomials and the formulas *)
RECURSIVE Horner(_, _)
Horner(cs, x) == IF cs = <<>> THEN R(0) ELSE RAdd(R(Head(cs)), RMul(x, Horner(Tail(cs), x)))
Denom(s, x) == IF s.den = <<>> THEN R(1) ELSE Horner(s.den, x)
RatFunc(s, x) == RDiv(Horner(s.num, x), Denom(s, x))
Slope(s) == IF Len(s.num) < 2 THEN <<0, 1>> ELSE Norm(<<s.num[2], IF s.den = <<>> THEN 1 ELSE s.den[1]>>)
LinInv(s, y) == \* (y * d - v0) / v1
    LET d == IF s.den = <<>> THEN 1 ELSE s.den[1] IN RDiv(RSub(RMul(y, R(d)), R(s.num[1])), R(s.num[2]))

FirstIdx(S) == CHOOSE k \in S : \A j \in S : k <= j

NoRes == [ok |-> FALSE, q |-> <<0, 1>>, txt |-> ""]
Num(q) == [ok |-> TRUE, q |-> Reduce(q), txt |-> ""]
Txt(t) == [ok |-> TRUE, q |-> <<0, 1>>, txt |-> t]

\* TAB-INTP points
Xs(c) == [k \in 1..Len(c.scales) |-> c.scales[k].lo.v]
Ys(c) == [k \in 1..Len(c.scales) |-> c.scales[k].pp]
SeqMin(s) == CHOOSE m \in {s[k] : k \in 1..Len(s)} : \A k \in 1..Len(s) : m <= s[k]
SeqMax(s) == CHOOSE m \in {s[k] : k \in 1..Len(s)} : \A k \in 1..Len(s) : m >= s[k]
Interp(x, x0, x1, y0, y1) == RAdd(R(y0), RDiv(RMul(RSub(x, R(x0)), R(y1 - y0)), R(x1 - x0)))

(* internal -> physical *)
I2P(c, p) ==
    LET x == Val(p) IN
    IF ~Admissible(c.it, p) THEN NoRes
    ELSE CASE c.cat = "IDENTICAL" -> Num(x)
      [] c.cat = "COMPUCODE" -> NoRes
      [] c.cat \in {"LINEAR", "SCALE-LINEAR", "RAT-FUNC", "SCALE-RAT-FUNC"} ->
             LET app == {k \in 1..Len(c.scales) : InScale(c.scales[k], x)} IN
             IF app = {} THEN NoRes
             ELSE LET s == c.scales[FirstIdx(app)] IN
                  IF RIsZero(Denom(s, x)) THEN NoRes ELSE Num(RatFunc(s, x))
      [] c.cat = "TAB-INTP" ->
             LET xs == Xs(c)
                 ys == Ys(c)
                 app == {k \in 1..(Len(xs) - 1) : RLe(R(xs[k]), x) /\ RLe(x, R(xs[k + 1]))} IN
             IF app = {} THEN NoRes
             ELSE LET k == FirstIdx(app) IN Num(Interp(x, xs[k], xs[k + 1], ys[k], ys[k + 1]))
      [] c.cat = "TEXTTABLE" ->
             LET app == {k \in 1..Len(c.scales) : InTextScale(c.scales[k], x)} IN
             IF app = {} THEN (IF c.dflt = "" THEN NoRes ELSE Txt(c.dflt))
             ELSE Txt(c.scales[FirstIdx(app)].txt)

(* physical -> internal: the set of exact values the inverse formula admits for y *)
Hull(s) == \* closed hull of the image of a linear scale: <<has lower, lower, has upper, upper>>
    LET bl == s.lo.k \notin {"absent", "INFINITE", "INFINITEV"}
        bh == s.hi.k \notin {"absent", "INFINITE", "INFINITEV"}
        fl == RatFunc(s, R(s.lo.v))
        fh == RatFunc(s, R(s.hi.v))
        neg == RLt(Slope(s), R(0)) IN
    IF neg THEN <<bh, fh, bl, fl>> ELSE <<bl, fl, bh, fh>>
InHull(h, y) == (h[1] => RLe(h[2], y)) /\ (h[3] => RLe(y, h[4]))

P2INum(c, y) ==
    CASE c.cat = "IDENTICAL" -> {Reduce(y)}
      [] c.cat \in {"LINEAR", "SCALE-LINEAR"} ->
             {IF RIsZero(Slope(c.scales[k])) THEN R(c.scales[k].civ) ELSE Reduce(LinInv(c.scales[k], y)) :
                k \in {j \in 1..Len(c.scales) : InHull(Hull(c.scales[j]), y)}}
      [] c.cat = "TAB-INTP" ->
             LET xs == Xs(c)
                 ys == Ys(c) IN
             {Reduce(Interp(y, ys[k], ys[k + 1], xs[k], xs[k + 1])) :
                k \in {j \in 1..(Len(xs) - 1) : ys[j] # ys[j + 1] /\
                         ((RLe(R(ys[j]), y) /\ RLe(y, R(ys[j + 1]))) \/ (RLe(R(ys[j + 1]), y) /\ RLe(y, R(ys[j]))))}}
             \* on a constant section every point of it is a preimage; its two end points stand for them
             \cup UNION {{R(xs[j]), R(xs[j + 1])} : j \in {i \in 1..(Len(xs) - 1) : ys[i] = ys[i + 1] /\ REq(R(ys[i]), y)}}
      [] c.cat \in {"RAT-FUNC", "SCALE-RAT-FUNC"} ->
             {Reduce(RatFunc(c.inv[k], y)) : k \in {j \in 1..Len(c.inv) : InScale(c.inv[j], y) /\ ~RIsZero(Denom(c.inv[j], y))}}
      [] OTHER -> {}
P2IText(c, t) ==
    LET m == {k \in 1..Len(c.scales) : c.scales[k].txt = t} IN
    IF m = {} THEN (IF c.dfltinv = NONE THEN {} ELSE {R(c.dfltinv)})
    ELSE {LET s == c.scales[k] IN
          IF s.civ # NONE THEN R(s.civ) ELSE IF s.lo.k # "absent" THEN R(s.lo.v) ELSE R(s.hi.v) : k \in m}

---------------------------------------------------------------------------
(* classification *)
Abs(n) == IF n < 0 THEN -n ELSE n
SlopeBig(s) == LET sl == Slope(s) IN Abs(sl[1]) >= Abs(sl[2])      \* |slope| >= 1
Sign(q) == IF q[1] > 0 THEN 1 ELSE IF q[1] < 0 THEN -1 ELSE 0
LinearInjective(c, s) == ~RIsZero(Slope(s)) /\ (c.pt = "float" \/ (IsIntType(c.it) /\ SlopeBig(s)))
\* adjacent scales share their boundary and agree there; all slopes have the same strict sign
MonCont(c) ==
    /\ c.cat \in {"LINEAR", "SCALE-LINEAR"}
    /\ \A k \in 1..Len(c.scales) : Sign(Slope(c.scales[k])) = Sign(Slope(c.scales[1])) /\ Sign(Slope(c.scales[1])) # 0
    /\ \A k \in 1..(Len(c.scales) - 1) :
         LET a == c.scales[k]
             b == c.scales[k + 1] IN
         /\ a.hi.k \in {"CLOSED", "OPEN", "none"} /\ b.lo.k \in {"CLOSED", "OPEN", "none"}
         /\ a.hi.v = b.lo.v
         /\ ~(a.hi.k = "OPEN" /\ b.lo.k = "OPEN")               \* the boundary point belongs to one of them
         /\ REq(RatFunc(a, R(a.hi.v)), RatFunc(b, R(b.lo.v)))
Injective(c) ==
    CASE c.cat = "IDENTICAL" -> TRUE
      [] c.cat \in {"LINEAR", "SCALE-LINEAR"} -> MonCont(c) /\ \A k \in 1..Len(c.scales) : LinearInjective(c, c.scales[k])
      [] c.cat = "TAB-INTP" ->
             LET xs == Xs(c)
                 ys == Ys(c) IN
             /\ \/ \A k \in 1..(Len(ys) - 1) : ys[k] < ys[k + 1]
                \/ \A k \in 1..(Len(ys) - 1) : ys[k] > ys[k + 1]
             /\ (c.pt = "float" \/ (IsIntType(c.it) /\ \A k \in 1..(Len(ys) - 1) : Abs(ys[k + 1] - ys[k]) >= xs[k + 1] - xs[k]))
      [] c.cat \in {"RAT-FUNC", "SCALE-RAT-FUNC"} -> c.invok
      [] c.cat = "TEXTTABLE" ->
             /\ c.dflt = ""
             /\ \A k \in 1..Len(c.scales) : LET s == c.scales[k] IN
                    /\ (s.hi.k = "absent" \/ (s.lo.k \in {"CLOSED", "none"} /\ s.hi.k \in {"CLOSED", "none"} /\ s.lo.v = s.hi.v))
                    /\ (s.civ = NONE \/ s.civ = s.lo.v)
             /\ \A j, k \in 1..Len(c.scales) : j # k => c.scales[j].txt # c.scales[k].txt
      [] OTHER -> FALSE

---------------------------------------------------------------------------
(* probes *)
IntProbes(t) == {<<n, 1, "int">> : n \in (IF t = "uint" THEN 0..14 ELSE -3..14)}
HalfProbes == {<<n, 2, "float">> : n \in -6..28}
\* configurations flagged "wide" are probed over a whole 7-bit domain (floating point round trips fail for few values only)
IProbes(c) == IF "wide" \in DOMAIN c THEN {<<n, 1, "int">> : n \in 0..127} ELSE
              IF IsIntType(c.it) THEN IntProbes(c.it) \cup {<<4, 1, "float">>, <<9, 2, "float">>}
              ELSE HalfProbes \cup {<<n, 1, "int">> : n \in {-1, 0, 3, 10}}
PProbes(c) == IF c.pt = "text" \/ "wide" \in DOMAIN c THEN {} ELSE
              IF IsIntType(c.pt) THEN {<<n, 1, "int">> : n \in -12..45} ELSE {<<n, 2, "float">> : n \in -24..90}

MkITab(c) == {[x |-> p, r |-> I2P(c, p)] : p \in IProbes(c)}
MkPTab(c) == {[y |-> p, c |-> P2INum(c, Val(p))] : p \in PProbes(c)}
ITab(c) == itab
PTab(c) == ptab
TTab(c) == IF c.pt # "text" THEN {} ELSE {[t |-> t, c |-> P2IText(c, t)] : t \in {"A", "B", "C", "D", "ZZ"}}

---------------------------------------------------------------------------
Init == phase = "pick" /\ cm = [cat |-> "none"] /\ itab = {} /\ ptab = {}
Pick(c) == phase = "pick" /\ cm' = c /\ phase' = "picked" /\ UNCHANGED <<itab, ptab>>
\* a separate step, so that the evaluation of the tables is spread over all TLC workers
Evaluate == phase = "picked" /\ phase' = "done" /\ itab' = MkITab(cm) /\ ptab' = MkPTab(cm) /\ UNCHANGED cm

---------------------------------------------------------------------------
(* design-level sanity of the reference itself (checked by TLC on every configuration) *)
Done == phase = "done"
\* an injective method maps two different valid probes to different exact values
InjectiveIsInjective ==
    Done /\ Injective(cm) /\ cm.pt # "text" =>
        \A a, b \in ITab(cm) : (a.r.ok /\ b.r.ok /\ ~REq(Val(a.x), Val(b.x))) => ~REq(a.r.q, b.r.q)
\* the inverse formula really inverts: for an injective method x is among the candidates for I2P(x)
InverseInverts ==
    Done /\ Injective(cm) /\ cm.pt # "text" =>
        \A a \in ITab(cm) : a.r.ok => \E z \in P2INum(cm, a.r.q) : REq(z, Val(a.x))
\* a monotone continuous method has an inverse candidate for every value between two images
MonContCovers ==
    Done /\ MonCont(cm) =>
        \A a, b \in ITab(cm) : \A e \in PTab(cm) :
            (a.r.ok /\ b.r.ok /\ RLe(a.r.q, Val(e.y)) /\ RLe(Val(e.y), b.r.q)) => e.c # {}
=============================================================================
