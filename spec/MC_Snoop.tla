----------------------------- MODULE MC_Snoop -----------------------------
(* A session alphabet for Snoop.tla over three services of MC_Dispatch's alphabet and the echoing global negative response. *)
EXTENDS Snoop, MC_Dispatch

MCSnoopLayer == [services |-> {s \in MCServices : s.name \in {"Sa", "Sb", "Si"}}, gnrs |-> <<[name |-> "GNR1", echo |-> TRUE]>>]
\* requests of the layer's services, a request of a service the layer lacks, garbage, a truncated request, a response sent by the tester
MCTesterMsgs == {<<16, 5>>, <<34, 5>>, <<133, 5>>, <<49, 1, 2>>, <<5>>, <<34>>, <<80, 5>>}
\* positive / negative / global negative responses, "response pending", truncated negative responses, garbage
MCEcuMsgs == {<<80, 5>>, <<98, 5>>, <<197, 5>>, <<127, 34, 49>>, <<127, 34, 120>>, <<127, 16, 5>>, <<127, 133, 34>>, <<127, 133, 120>>,
              <<127>>, <<127, 16>>, <<5>>}
SnoopEmit == Len(hist) = Depth => PrintT(ToJson([hist |-> hist]))
=============================================================================
