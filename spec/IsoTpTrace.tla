--------------------------- MODULE IsoTpTrace ---------------------------
(***************************************************************************)
(* Validates executions of the real reassembler                            *)
(* (IsoTpStateMachine.decode_rx_frame / read_telegrams / IsoTpActiveDecoder) *)
(* against the ghost monitor of IsoTp.tla.  One ndjson file = many traces.  *)
(* Each "frame" line: the CAN frame handed to the code, the telegrams it    *)
(* reported for it, the exception that escaped (if any), and - for the      *)
(* active decoder - the flow-control frames it put on the bus.              *)
(* Verdicts are total: every line gets "ok" or a clause name.               *)
(***************************************************************************)
EXTENDS IsoTpCore, Json, IOUtils, TLCExt

VARIABLES l, mon, imp   \* line; ghost monitor and implementation-shaped receiver per ID (1..3)

Log == ndJsonDeserialize(IOEnv.TRACE_FILE)
TIds == 1..3

IsFc(m) == Len(m) >= 3 /\ m[1] = 48    \* 30 xx xx: clear to send

LineVerdict(ev) ==
    IF ev.exc # "" THEN "exception"
    ELSE IF ev.id = 0 THEN (IF ev.out # <<>> THEN "fabricated" ELSE "ok")
    ELSE LET j == Judge(mon[ev.id], ev.data, ev.out) IN
         IF j # "ok" THEN j
         ELSE IF ev.active /\ Kind(ev.data) = "FF" /\ Len(ev.data) >= 2
                 /\ ~\E k \in 1..Len(ev.fc) : IsFc(ev.fc[k]) THEN "no_flow_control"
         ELSE "ok"

\* not a verdict: does the code agree with the implementation-shaped receiver as well?
ShapeAgrees(ev) == ev.id = 0 \/ RxStep(imp[ev.id], ev.data).out = ev.out

TraceInit == /\ l = 1
             /\ mon = [i \in TIds |-> GhostInit]
             /\ imp = [i \in TIds |-> RxInit]

TraceNext ==
    /\ l <= Len(Log)
    /\ LET ev == Log[l] IN
       /\ l' = l + 1
       /\ IF ev.ev = "init"
          THEN /\ mon' = [i \in TIds |-> GhostInit]
               /\ imp' = [i \in TIds |-> RxInit]
          ELSE /\ LET v == LineVerdict(ev) IN
                  IF v = "ok" THEN (IF ShapeAgrees(ev) THEN TRUE ELSE PrintT(<<"D", ev.tid, l, "shape">>))
                  ELSE PrintT(<<"V", ev.tid, l, v>>)
               /\ IF ev.id = 0 THEN UNCHANGED <<mon, imp>>
                  ELSE /\ mon' = [mon EXCEPT ![ev.id] = GhostAfter(mon[ev.id], ev.data, ev.out)]
                       /\ imp' = [imp EXCEPT ![ev.id] = RxStep(imp[ev.id], ev.data).r]

TraceSpec == TraceInit /\ [][TraceNext]_<<l, mon, imp>>
TraceAccepted == TLCGet("stats").diameter - 1 = Len(Log)
=============================================================================
