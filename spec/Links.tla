-------------------------------- MODULE Links --------------------------------
(***************************************************************************)
(* Resolution of references when a database is loaded (C10).               *)
(*                                                                         *)
(* Fragments: container C1 holds the layers A (base variant), S (a sibling *)
(* base variant) and V (ECU variant, child of A); container C2 holds the   *)
(* ECU-SHARED-DATA layer E.  Data objects carry local IDs that may occur   *)
(* in several fragments.  A, S, V may IMPORT-REF E.                        *)
(*                                                                         *)
(* ID references: with DOCREF the object of that ID in the named fragment; *)
(* without, the innermost fragment of the referring position first (its    *)
(* layer, then its container).  Imported IDs are visible in the importing  *)
(* layer as if local but never replace a local ID, and are visible to      *)
(* nobody else.  Result: the owning layer, "Unresolved" (loading must fail *)
(* in strict mode) or "DontCare" (two objects of one ID in the fragment).  *)
(*                                                                         *)
(* Short-name references are resolved in the view of the layer AFTER value *)
(* inheritance and must find exactly one object; re-targeting to another   *)
(* layer rebinds them to that layer's view.                                *)
(***************************************************************************)
EXTENDS Integers, Sequences, FiniteSets, TLC

CONSTANTS Ids              \* e.g. {"i"} or {"i", "j"}

VARIABLES phase, defs, imports, sn
vars == <<phase, defs, imports, sn>>

LayerNames == {"A", "S", "V", "E"}
Frag(L) == IF L = "E" THEN "C2" ELSE "C1"
Importers == {"A", "S", "V"}

Own(L, id) == <<L, id>> \in defs
\* what a reference written in layer src sees in the fragment of layer X
LayerScope(src, X, id) ==
    IF Own(X, id) THEN X
    ELSE IF src = X /\ X \in imports /\ Own("E", id) THEN "E"
    ELSE "Unresolved"
ContainerScope(src, C, id) ==
    LET cands == {L \in LayerNames : Frag(L) = C /\ Own(L, id)} IN
    IF Cardinality(cands) = 1 THEN CHOOSE L \in cands : TRUE
    ELSE IF Cardinality(cands) > 1 THEN "DontCare"
    ELSE IF src \in imports /\ Frag(src) = C /\ Own("E", id) THEN "E"
    ELSE "Unresolved"
\* doc: "" (no DOCREF), a layer name (DOCTYPE LAYER) or a container name (DOCTYPE CONTAINER)
Target(src, id, doc) ==
    IF doc = "" THEN (IF LayerScope(src, src, id) # "Unresolved" THEN LayerScope(src, src, id)
                      ELSE ContainerScope(src, Frag(src), id))
    ELSE IF doc \in LayerNames THEN LayerScope(src, doc, id)
    ELSE ContainerScope(src, doc, id)
Docs == {"", "C1", "C2", "A", "S", "V", "E"}
Refs == {<<src, id, doc>> : src \in Importers, id \in Ids, doc \in Docs}

---------------------------------------------------------------------------
(* short-name references: sn is a record
     [gdop, adop, astruct, vdop, ni : BOOLEAN]
   A defines a DOP n / a structure n, V defines a DOP n, V's PARENT-REF excludes n.
   A request of A (inherited by V) and a request of V both say DOP-SNREF n.       *)
\* G (a functional group) is the parent of A; it may define a DOP n and then has a request with DOP-SNREF n of its own
DopOfA(s) == IF s.adop THEN {"A.dop"} ELSE IF s.gdop THEN {"G.dop"} ELSE {}
ViewA(s) == DopOfA(s) \cup (IF s.astruct THEN {"A.struct"} ELSE {})
ViewV(s) == IF s.vdop THEN {"V.dop"} \cup (IF s.ni THEN {} ELSE (IF s.astruct THEN {"A.struct"} ELSE {}))
            ELSE IF s.ni THEN {} ELSE ViewA(s)
\* a local DOP n overrides the inherited DOP n; an inherited structure of the same name is a different category
Unique(S) == IF Cardinality(S) = 1 THEN CHOOSE x \in S : TRUE ELSE "Unresolved"
SnTargetG(s) == IF s.gdop THEN "G.dop" ELSE "none"     \* the reference in G's request, as loaded
SnTargetA(s) == Unique(ViewA(s))          \* the reference in A's request, as loaded
SnTargetV(s) == Unique(ViewV(s))          \* the reference in V's request; and A's and G's references after re-targeting to V
\* A has a second functional group G2 as parent (written after G).  G2 defines a DOP m and a request with DOP-SNREF m;
\* V defines a DOP m of its own exactly when it defines n.  The inheritance graph branches at A: re-targeting to V must
\* reach the objects of EVERY parent, not only those of the first chain.
\* a row of A's table that names its data object by short name (a typed lookup: structures do not count); V's table includes
\* the row by TABLE-ROW-REF, which does not make it V's row: it stays bound in A's view
SnTargetRowA(s) == IF DopOfA(s) = {} THEN "none" ELSE CHOOSE x \in DopOfA(s) : TRUE
SnTargetG2(s) == "G2.m"                                         \* as loaded
SnTargetG2Retargeted(s) == IF s.vdop THEN "V.m" ELSE "G2.m"     \* after re-targeting to V

---------------------------------------------------------------------------
NoSn == [gdop |-> FALSE, adop |-> FALSE, astruct |-> FALSE, vdop |-> FALSE, ni |-> FALSE]
Init == phase = "pick" /\ defs = {} /\ imports = {} /\ sn = NoSn
PickIds == \E d \in SUBSET (LayerNames \X Ids), im \in SUBSET Importers :
              phase = "pick" /\ defs' = d /\ imports' = im /\ sn' = NoSn /\ phase' = "ids"
PickSn == \E g, a, b, c, n \in BOOLEAN :
              phase = "pick" /\ sn' = [gdop |-> g, adop |-> a, astruct |-> b, vdop |-> c, ni |-> n] /\ phase' = "sn" /\ UNCHANGED <<defs, imports>>
Next == PickIds \/ PickSn
Spec == Init /\ [][Next]_vars

(* design-level sanity *)
LocalNeverReplaced == phase = "ids" => \A r \in Refs : Own(r[1], r[2]) /\ r[3] = "" => Target(r[1], r[2], r[3]) = r[1]
ImportOnlyForImporter == phase = "ids" => \A r \in Refs : Target(r[1], r[2], r[3]) = "E" /\ r[3] # "E" /\ r[3] # "C2" => r[1] \in imports
DocrefIsExact == phase = "ids" => \A r \in Refs : r[3] \in LayerNames /\ Own(r[3], r[2]) => Target(r[1], r[2], r[3]) = r[3]
RetargetRebinds == phase = "sn" /\ sn.vdop => SnTargetV(sn) \in {"V.dop", "Unresolved"}
=============================================================================
