SPECIFICATION Spec
CONSTANTS
  Alphabet <- MCAlphabet
  Dops0 <- MCDops
  NewNames <- MCNewNames
  MaxServices = 2
  MaxEdits = 1
INVARIANT SelfCompareEmpty
INVARIANT Unedited
INVARIANT SingleEditExact
INVARIANT SwapSymmetric
INVARIANT Emit
