CONSTANT Wrong = FALSE
SPECIFICATION SpecQuick
INVARIANT RoundTrip
INVARIANT ConsumesWholePdu
INVARIANT UndescribedBitsZero
INVARIANT StaticLenExact
INVARIANT PrefixIsPrefix
INVARIANT RequiredIffOmissionFails
INVARIANT TruncatedRejected
INVARIANT Emit
