SPECIFICATION Spec
CONSTANTS
  Ids = {"i", "j"}
INVARIANT LocalNeverReplaced
INVARIANT ImportOnlyForImporter
INVARIANT DocrefIsExact
INVARIANT RetargetRebinds
INVARIANT Emit
