------------------------ MODULE NamedItemListTrace ------------------------
(***************************************************************************)
(* Validates executions of the real NamedItemList against NamedItemList.   *)
(* One ndjson file holds many traces (field tid); each line is one public  *)
(* call with the state projected from the real object AFTER the call.      *)
(* The validator always follows the observed state, so verdicts are total: *)
(* every line gets "ok" or the name of the first clause that fails.        *)
(*   violation:*   a clause of property C16 fails on the observed state    *)
(*   divergence:*  the step is not a step of the (permissive) spec although *)
(*                 C16 still holds, e.g. an untouched item was renamed     *)
(***************************************************************************)
EXTENDS NamedItemList, Json, IOUtils, TLCExt

VARIABLES l,      \* next line of the log
          dead    \* a violation was reported for the current trace: skip to the next init

Log == ndJsonDeserialize(IOEnv.TRACE_FILE)

ListClause(ev) ==
    CASE ev.op = "append"  -> AppendList(items, ev.i, ev.list)
      [] ev.op = "insert"  -> InsertList(items, ev.k, ev.i, ev.list)
      [] ev.op = "extend"  -> ExtendList(items, ev.i, ev.j, ev.list)
      [] ev.op = "remove"  -> RemoveList(items, ev.i, ev.list)
      [] ev.op = "pop"     -> PopList(items, ev.k, ev.list)
      [] ev.op = "clear"   -> ev.list = <<>>
      [] ev.op \in {"copy", "copycopy", "deepcopy", "pickle"} -> ev.list = items
      [] OTHER -> FALSE

StepClause(ev) ==
    CASE ev.op = "append"  -> AppendRel(items, names, ev.i, ev.list, ev.names)
      [] ev.op = "insert"  -> InsertRel(items, names, ev.k, ev.i, ev.list, ev.names)
      [] ev.op = "extend"  -> ExtendRel(items, names, ev.i, ev.j, ev.list, ev.names)
      [] ev.op = "remove"  -> RemoveRel(items, names, ev.i, ev.list, ev.names)
      [] ev.op = "pop"     -> PopRel(items, names, ev.k, ev.list, ev.names)
      [] ev.op = "clear"   -> ClearRel(ev.list, ev.names)
      [] OTHER -> ev.names = names

\* the copy must be a copy when it is made, and must stay what it was afterwards
CopyListClause(ev) ==
    IF ev.op \in {"copy", "copycopy", "deepcopy", "pickle"} THEN ev.list2 = items
    ELSE ev.list2 = items2

Verdict(ev) ==
    IF ev.exc # "" THEN "violation:exception"
    ELSE IF ~ListClause(ev) THEN "violation:list_order"
    ELSE IF ~NoDup(ev.list) THEN "violation:driver_duplicate"
    ELSE IF ~Consistent(ev.list, ev.names) THEN "violation:consistent"
    ELSE IF ~ev.lookup THEN "violation:lookup"
    ELSE IF ev.hascopy /\ ~CopyListClause(ev) THEN "violation:copy_list"
    ELSE IF ev.hascopy /\ ~Consistent(ev.list2, ev.names2) THEN "violation:copy_consistent"
    ELSE IF ev.hascopy /\ ~ev.lookup2 THEN "violation:copy_lookup"
    ELSE IF ~StepClause(ev) THEN "divergence:step_relation"
    ELSE "ok"

TraceInit == /\ l = 1 /\ dead = FALSE /\ Init

TraceNext ==
    /\ l <= Len(Log)
    /\ LET ev == Log[l] IN
       /\ l' = l + 1
       /\ IF ev.op = "init"
          THEN /\ items' = <<>> /\ names' = Empty /\ hascopy' = FALSE
               /\ items2' = <<>> /\ names2' = Empty /\ dead' = FALSE
          ELSE IF dead THEN UNCHANGED <<vars, dead>>
          ELSE LET v == Verdict(ev) IN
               /\ IF v = "ok" THEN TRUE ELSE PrintT(<<"V", ev.tid, l, v>>)
               /\ dead' = (v \notin {"ok", "divergence:step_relation"})
               /\ items' = ev.list /\ names' = ev.names /\ hascopy' = ev.hascopy
               /\ items2' = ev.list2 /\ names2' = ev.names2

TraceSpec == TraceInit /\ [][TraceNext]_<<vars, l, dead>>

\* all lines consumed: one state per line plus the initial state
TraceAccepted == TLCGet("stats").diameter - 1 = Len(Log)
=============================================================================
