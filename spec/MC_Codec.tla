----------------------------- MODULE MC_Codec -----------------------------
(* Families of message descriptions for Codec.tla and the JSON emission of terminal states. *)
EXTENDS Codec, Json

P(k, n, bp, bi) == [k |-> k, n |-> n, bp |-> bp, bi |-> bi, dop |-> NoDop, dct |-> NoDct, cv |-> Missing, cvs |-> <<>>,
                    bits |-> 0, rq |-> 0, len |-> 0, dv |-> Missing, sys |-> ""]
Std(base, enc, bits, hilo) == [k |-> "std", base |-> base, enc |-> enc, bits |-> bits, hilo |-> hilo, min |-> 0, max |-> -1,
                               term |-> "", key |-> "", nbits |-> 0]
MinMax(base, min, max, term) == [Std(base, "NONE", 0, TRUE) EXCEPT !.k = "minmax", !.min = min, !.max = max, !.term = term]
Leading(base, bits, hilo) == [Std(base, "NONE", bits, hilo) EXCEPT !.k = "leading"]
ParamLen(base, enc, key, nbits, hilo) == [Std(base, enc, 0, hilo) EXCEPT !.k = "paramlen", !.key = key, !.nbits = nbits]
Simple(dct) == [k |-> "simple", dct |-> dct]
SimpleA(dct, alpha) == [k |-> "simple", dct |-> dct, alpha |-> alpha]
Struct(ps, bs) == [k |-> "struct", ps |-> ps, bs |-> bs]
U8 == Std("uint", "NONE", 8, TRUE)
\* a standard length type with a BIT-MASK (not condensed)
StdM(base, bits, hilo, mask) == Std(base, "NONE", bits, hilo) @@ ("mask" :> mask)
Value(n, bp, bi, dop) == [P("VALUE", n, bp, bi) EXCEPT !.dop = dop]
ValueD(n, bp, bi, dop, dv) == [P("VALUE", n, bp, bi) EXCEPT !.dop = dop, !.dv = dv]
Const(n, bp, bi, dct, v) == [P("CODED-CONST", n, bp, bi) EXCEPT !.dct = dct, !.cv = v]
PhysConst(n, bp, dop, v) == [P("PHYS-CONST", n, bp, -1) EXCEPT !.dop = dop, !.cv = v]
Reserved(n, bp, bi, bits) == [P("RESERVED", n, bp, bi) EXCEPT !.bits = bits]
Matching(n, bp, rq, len) == [P("MATCHING-REQUEST-PARAM", n, bp, -1) EXCEPT !.rq = rq, !.len = len]
Nrc(n, bp, vs) == [P("NRC-CONST", n, bp, -1) EXCEPT !.dct = U8, !.cvs = vs]
System(n, bp, dop, kind) == [P("SYSTEM", n, bp, -1) EXCEPT !.dop = dop, !.sys = kind]
Case(n, lo, hi, st) == [n |-> n, lo |-> lo, hi |-> hi, st |-> st]
LenKey(n, bp, bi, dop) == [P("LENGTH-KEY", n, bp, bi) EXCEPT !.dop = dop]
Row(n, key, st) == [n |-> n, key |-> key, st |-> st]
TabKey(n, bp, tab) == [P("TABLE-KEY", n, bp, -1) EXCEPT !.dop = tab]
TabKeyStatic(n, tab, row) == [P("TABLE-KEY", n, -1, -1) EXCEPT !.dop = tab, !.cv = Str(row)]     \* TABLE-ROW-REF
TabStruct(n, bp, tab, keyname) == [P("TABLE-STRUCT", n, bp, -1) EXCEPT !.dop = tab, !.sys = keyname]

SID == Const("sid", 0, -1, U8, IntV(34))
RQ == <<34, 16, 32>>
D(ps) == [ps |-> ps, rq |-> RQ]

(* family A: one atomic value, every representation x placement *)
IntKinds == {<<"uint", "NONE">>, <<"uint", "BCD-P">>, <<"uint", "BCD-UP">>, <<"int", "2C">>, <<"int", "1C">>, <<"int", "SM">>,
             <<"int", "DEFAULT">>, <<"uint", "DEFAULT">>}
PickA(Bits, BitPos, BytePos) ==
    \E k \in IntKinds, n \in Bits, bi \in BitPos, bp \in BytePos, h \in BOOLEAN :
        Pick(D(<<SID, Value("p1", bp, bi, Simple(Std(k[1], k[2], n, h)))>>))
PickA2 ==
    \/ \E b \in {<<"f32", 32>>, <<"f64", 64>>, <<"bytes", 8>>, <<"bytes", 24>>, <<"ascii", 8>>, <<"ascii", 16>>,
                  <<"utf8", 8>>, <<"utf8", 16>>, <<"utf8", 24>>, <<"ucs2", 16>>, <<"ucs2", 32>>}, h \in BOOLEAN :
           Pick(D(<<SID, Value("p1", -1, -1, Simple(Std(b[1], "NONE", b[2], h)))>>))
    \/ \E h \in BOOLEAN : Pick(D(<<SID, Value("p1", 2, 4, Simple(Std("f32", "NONE", 32, h)))>>))

(* family B: types that carry their length *)
Tail8 == Const("tail", -1, -1, U8, IntV(171))
PickB ==
    \/ \E b \in {"bytes", "ascii", "utf8", "ucs2"}, m \in {<<0, -1>>, <<2, 4>>, <<0, 2>>, <<2, 2>>}, t \in {"ZERO", "HEX-FF", "END-OF-PDU"},
          f \in {<<>>, <<Tail8>>} :
           Pick(D(<<SID, Value("p1", -1, -1, Simple(MinMax(b, m[1], m[2], t)))>> \o f))
    \/ \E b \in {"bytes", "ascii", "utf8", "ucs2"}, n \in {8, 16}, h \in BOOLEAN, f \in {<<>>, <<Tail8>>} :
           Pick(D(<<SID, Value("p1", -1, -1, Simple(Leading(b, n, h)))>> \o f))
    \/ Pick(D(<<SID, Value("p1", -1, 4, Simple(Leading("bytes", 4, TRUE))), Tail8>>))
    \/ \E b \in {<<"uint", "NONE", 16>>, <<"int", "2C", 8>>, <<"bytes", "NONE", 0>>, <<"utf8", "NONE", 0>>}, h \in BOOLEAN,
          f \in {<<>>, <<Tail8>>} :
           Pick(D(<<SID, LenKey("lk", -1, -1, Simple(U8)),
                    Value("p1", -1, -1, IF b[1] = "uint" THEN SimpleA(ParamLen(b[1], b[2], "lk", b[3], h), {IntV(0), IntV(5), IntV(300)})
                                        ELSE IF b[1] = "int" THEN SimpleA(ParamLen(b[1], b[2], "lk", b[3], h), {IntV(0), IntV(-1), IntV(3), IntV(200), IntV(-129)})
                                        ELSE Simple(ParamLen(b[1], b[2], "lk", b[3], h)))>> \o f))
    \* a length key at a bit position that makes it reach into the next byte; what follows has no explicit position
    \/ \E f \in {<<>>, <<Tail8>>} :
           Pick(D(<<SID, LenKey("lk", -1, 4, Simple(Std("uint", "NONE", 6, TRUE))),
                    Value("p1", -1, -1, SimpleA(ParamLen("uint", "NONE", "lk", 16, TRUE), {IntV(5), IntV(300)}))>> \o f))
    \* the key is listed first but placed after the value it describes
    \/ Pick(D(<<SID, LenKey("lk", 3, -1, Simple(U8)), Value("p1", 1, -1, SimpleA(ParamLen("uint", "NONE", "lk", 16, TRUE), {IntV(300), IntV(4660)}))>>))

(* family C: composites; a shape is a sequence of parameters, i = position in the list (for unique names) *)
Nm(pre, i) == CASE i = 1 -> pre \o "1" [] i = 2 -> pre \o "2" [] OTHER -> pre \o "3"
Item == Struct(<<Value("a", -1, -1, SimpleA(U8, {IntV(1), IntV(2)}))>>, -1)
\* an item that ends in a terminated string: shows whether the end-of-PDU flag is handled per item
ItemT == Struct(<<Value("t", -1, -1, SimpleA(MinMax("ascii", 0, 3, "ZERO"), {TextV(<<65>>), TextV(<<65, 66, 67>>)}))>>, -1)
ItemL == Struct(<<Value("b", -1, -1, SimpleA(Leading("bytes", 8, TRUE), {BytesV(<<>>), BytesV(<<18, 52>>)}))>>, -1)
Two == Struct(<<Value("a", -1, -1, Simple(U8)), Value("b", -1, -1, SimpleA(U8, {IntV(7)}))>>, -1)
\* (one table with data-object rows, one with structure rows: a set of values cannot mix integers and dictionaries)
Tab1 == [k |-> "table", kdct |-> U8, rows |-> <<Row("row1", 1, SimpleA(U8, {IntV(5), IntV(200)})),
                                                 Row("row2", 2, SimpleA(Std("uint", "NONE", 16, TRUE), {IntV(4660)})), Row("row3", 7, NoDop)>>]
Tab2 == [k |-> "table", kdct |-> Std("uint", "NONE", 16, TRUE), rows |-> <<Row("rowA", 258, Item), Row("rowB", 3, Two)>>]
Shapes(i) == {
    <<Value(Nm("p", i), -1, -1, Simple(U8))>>,
    <<Value(Nm("p", i), 3, -1, Simple(U8))>>,                                    \* explicit position (gap or overlap)
    <<Value(Nm("p", i), 1, -1, Simple(U8))>>,
    <<Value(Nm("p", i), -1, -1, Struct(<<Value("a", 0, -1, Simple(Std("uint", "NONE", 4, TRUE))),
                                         Value("b", 0, 4, SimpleA(Std("uint", "NONE", 4, TRUE), {IntV(3), IntV(15)}))>>, -1))>>,
    \* a multiplexer: key byte, then the content of the chosen case (one case and the default have no structure)
    <<Value(Nm("p", i), -1, -1, [k |-> "mux", bp |-> 1, kbp |-> 0, kbit |-> 0, kdct |-> U8, hasdflt |-> TRUE,
                                 cases |-> <<Case("c1", 1, 1, Item), Case("c2", 2, 3, NoDop)>>, dflt |-> Case("dflt", 0, 0, NoDop)])>>,
    <<Value(Nm("p", i), -1, -1, [k |-> "mux", bp |-> 2, kbp |-> 0, kbit |-> 4, kdct |-> Std("uint", "NONE", 4, TRUE), hasdflt |-> FALSE,
                                 cases |-> <<Case("c1", 1, 1, Two), Case("c2", 5, 9, Item)>>, dflt |-> Case("none", 0, 0, NoDop)])>>,
    \* a SYSTEM parameter of a user-defined kind: its value must be supplied
    <<System(Nm("y", i), -1, Simple(U8), "Year")>>,
    \* three sub-byte objects in one byte; the third overlaps the first, which is not the one placed just before it
    <<Value(Nm("p", i), -1, -1, Struct(<<Value("a", 0, 0, SimpleA(Std("uint", "NONE", 3, TRUE), {IntV(5)})),
                                         Value("b", 0, 5, SimpleA(Std("uint", "NONE", 3, TRUE), {IntV(2)})),
                                         Value("c", 0, 2, SimpleA(Std("uint", "NONE", 2, TRUE), {IntV(1), IntV(3)}))>>, -1))>>,
    \* an explicitly positioned value followed by a field that reads to the end of the PDU
    <<Value(Nm("p", i), 3, -1, Simple(U8)), Value(Nm("f", i), -1, -1, [k |-> "eopfield", st |-> Item])>>,
    \* a table: the key selects the row, the row's data object / structure describes the content; row3 has neither
    <<TabKey(Nm("k", i), -1, Tab1), TabStruct(Nm("t", i), -1, Tab1, Nm("k", i))>>,
    <<TabKey(Nm("k", i), -1, Tab2), TabStruct(Nm("t", i), -1, Tab2, Nm("k", i))>>,
    \* the row is selected statically
    <<TabKeyStatic(Nm("k", i), Tab1, "row2"), TabStruct(Nm("t", i), -1, Tab1, Nm("k", i))>>,
    \* a trouble code followed by its environment data: one parameter common to all codes, one or two per code
    <<Value(Nm("d", i), -1, -1, [k |-> "dtc", dct |-> U8, codes |-> <<1, 2, 3>>]),
      Value(Nm("e", i), -1, -1, [k |-> "envdesc", ref |-> Nm("d", i), hasall |-> TRUE,
                                 all |-> <<Value("common", -1, -1, SimpleA(U8, {IntV(9)}))>>,
                                 per |-> <<[codes |-> {1}, ps |-> <<Value("x", -1, -1, SimpleA(U8, {IntV(4), IntV(5)}))>>],
                                           [codes |-> {2}, ps |-> <<Value("y", -1, -1, SimpleA(Std("uint", "NONE", 16, TRUE), {IntV(258)})),
                                                                    Value("z", -1, -1, SimpleA(U8, {IntV(7)}))>>]>>])>>,
    \* records of (trouble code, environment data) up to the end of the PDU: each record's data follows ITS code
    <<Value(Nm("f", i), -1, -1, [k |-> "eopfield", st |-> Struct(<<
        Value("d", -1, -1, [k |-> "dtc", dct |-> U8, codes |-> <<1, 2>>]),
        Value("e", -1, -1, [k |-> "envdesc", ref |-> "d", hasall |-> FALSE, all |-> <<>>,
                            per |-> <<[codes |-> {1}, ps |-> <<Value("x", -1, -1, SimpleA(U8, {IntV(4)}))>>],
                                      [codes |-> {2}, ps |-> <<Value("y", -1, -1, SimpleA(Std("uint", "NONE", 16, TRUE), {IntV(258)}))>>]>>])>>, -1)])>>,
    \* ... the same without common parameters, selected by a plain unsigned value instead of a DTC object
    <<Value(Nm("d", i), -1, -1, SimpleA(U8, {IntV(1), IntV(6)})),
      Value(Nm("e", i), -1, -1, [k |-> "envdesc", ref |-> Nm("d", i), hasall |-> FALSE, all |-> <<>>,
                                 per |-> <<[codes |-> {1, 4}, ps |-> <<Value("x", -1, -1, SimpleA(U8, {IntV(4)}))>>]>>])>>,
    \* bit masks: the low nibble of a byte shared with the next object, a 16 bit mask in both byte orders, a masked byte field
    <<Value(Nm("m", i), -1, -1, SimpleA(StdM("uint", 8, TRUE, 15), {IntV(0), IntV(5), IntV(15), IntV(16), IntV(255)})),
      Value(Nm("h", i), i, 4, SimpleA(Std("uint", "NONE", 4, TRUE), {IntV(9)}))>>,
    <<Value(Nm("m", i), -1, -1, SimpleA(StdM("uint", 16, TRUE, 4080), {IntV(0), IntV(4080), IntV(256), IntV(1)}))>>,
    <<Value(Nm("m", i), -1, -1, SimpleA(StdM("uint", 16, FALSE, 4080), {IntV(0), IntV(4080), IntV(256), IntV(1)}))>>,
    <<Value(Nm("m", i), -1, -1, SimpleA(StdM("bytes", 16, TRUE, 61455), {BytesV(<<240, 15>>), BytesV(<<16, 1>>), BytesV(<<1, 16>>)}))>>,
    \* a DTC object: 24 bit trouble codes, of which the description defines three
    <<Value(Nm("d", i), -1, -1, [k |-> "dtc", dct |-> Std("uint", "NONE", 24, TRUE), codes |-> <<1, 66051, 16777215>>])>>,
    <<Value(Nm("d", i), -1, 4, [k |-> "dtc", dct |-> Std("uint", "NONE", 12, FALSE), codes |-> <<2, 291>>])>>,
    <<Const(Nm("c", i), -1, -1, U8, IntV(171))>>,
    <<Const(Nm("c", i), -1, -1, Std("uint", "NONE", 16, FALSE), IntV(4660))>>,
    <<PhysConst(Nm("c", i), -1, Simple(U8), IntV(7))>>,
    <<Reserved(Nm("r", i), -1, -1, 8)>>,
    <<Reserved(Nm("r", i), -1, 4, 4)>>,
    <<Reserved(Nm("r", i), -1, 4, 8)>>,                                          \* straddles a byte boundary
    <<Value(Nm("p", i), -1, -1, [k |-> "eopfield", st |-> ItemT])>>,
    <<Value(Nm("p", i), -1, -1, [k |-> "dlfield", st |-> ItemT, off |-> 1, cbp |-> 0, cbit |-> 0, cdct |-> U8])>>,
    \* the first item does not follow the count directly (an empty field still reaches up to the offset)
    <<Value(Nm("p", i), -1, -1, [k |-> "dlfield", st |-> Item, off |-> 2, cbp |-> 0, cbit |-> 0, cdct |-> U8])>>,
    \* items that end in a terminated string, in a static field and in front of an end marker (the last item is the last)
    <<Value(Nm("p", i), -1, -1, [k |-> "sfield", st |-> ItemT, cnt |-> 2, isz |-> 4])>>,
    <<Value(Nm("p", i), -1, -1, [k |-> "demfield", st |-> ItemT, tdct |-> U8, tv |-> IntV(255)])>>,
    \* items of dynamic size inside slots of fixed size
    <<Value(Nm("p", i), -1, -1, [k |-> "sfield", st |-> ItemL, cnt |-> 2, isz |-> 4])>>,

    <<Matching(Nm("m", i), -1, 1, 1)>>,
    <<Matching(Nm("m", i), -1, 1, 2)>>,
    <<Nrc(Nm("n", i), i, <<IntV(16), IntV(17)>>), Value(Nm("p", i), i, -1, SimpleA(U8, {IntV(16), IntV(17)}))>>,
    <<ValueD(Nm("p", i), -1, -1, Simple(U8), IntV(5))>>,
    <<Value(Nm("p", i), -1, -1, Two)>>,
    <<Value(Nm("p", i), -1, -1, [Two EXCEPT !.bs = 3])>>,
    <<Value(Nm("p", i), -1, -1, Struct(<<Value("a", -1, -1, SimpleA(U8, {IntV(9)})), Value("s", -1, -1, Item)>>, -1))>>,
    <<Value(Nm("p", i), -1, -1, [k |-> "sfield", st |-> Item, cnt |-> 2, isz |-> 2])>>,
    <<Value(Nm("p", i), -1, -1, [k |-> "dlfield", st |-> Item, off |-> 1, cbp |-> 0, cbit |-> 0, cdct |-> U8])>>,
    <<Value(Nm("p", i), -1, -1, [k |-> "eopfield", st |-> Item])>>,
    <<Value(Nm("p", i), -1, -1, [k |-> "demfield", st |-> Item, tdct |-> U8, tv |-> IntV(255)]),
      Value(Nm("e", i), -1, -1, SimpleA(U8, {IntV(255)}))>>,
    <<Value(Nm("p", i), -1, -1, [k |-> "demfield", st |-> Item, tdct |-> U8, tv |-> IntV(255)])>>,
    <<Value(Nm("p", i), -1, -1, SimpleA(MinMax("ascii", 0, 3, "ZERO"), {TextV(<<>>), TextV(<<65, 66>>), TextV(<<65, 66, 67>>)}))>>,
    <<Value(Nm("p", i), -1, -1, SimpleA(Leading("bytes", 8, TRUE), {BytesV(<<>>), BytesV(<<18, 52>>)}))>>,
    <<LenKey(Nm("k", i), -1, -1, Simple(U8)), Value(Nm("p", i), -1, -1, SimpleA(ParamLen("uint", "NONE", Nm("k", i), 16, TRUE), {IntV(5), IntV(300)}))>>,
    <<Value(Nm("p", i), -1, -1, Struct(<<LenKey("k", -1, -1, Simple(U8)),
                                          Value("v", -1, -1, SimpleA(ParamLen("uint", "NONE", "k", 8, TRUE), {IntV(5)}))>>, -1))>>
  }
\* an end-marker field whose marker no parameter describes makes sense only at the end of the message
Inner(i) == {sh \in Shapes(i) : ~(Len(sh) = 1 /\ sh[1].dop.k = "demfield")}
\* ... and a table key placed after the content it selects (explicit positions; nothing may follow: it would read the key)
PickC1 == \/ \E a \in Shapes(1) : Pick(D(<<SID>> \o a))
          \/ Pick(D(<<SID, TabKey("k1", 3, Tab1), TabStruct("t1", 1, Tab1, "k1")>>))
          \* ... and a multiplexer whose switch key sits behind the content it selects
          \/ Pick(D(<<SID, Value("p1", -1, -1, [k |-> "mux", bp |-> 0, kbp |-> 1, kbit |-> 0, kdct |-> U8, hasdflt |-> FALSE,
                                                cases |-> <<Case("c1", 1, 1, Item), Case("c2", 2, 2, Item)>>,
                                                dflt |-> Case("none", 0, 0, NoDop)])>>))
PickC2 == \E a \in Inner(1), b \in Shapes(2) : Pick(D(<<SID>> \o a \o b))
\* an object that reads up to the end of the PDU (field, unterminated text) must not start in front of (or inside) an object
\* placed earlier: with three shapes the middle one is not positioned explicitly (it could jump backwards)
\* shapes with large value alphabets (environment data, tables, records of trouble codes) take part in compositions of two
HeavyDop(d) == \/ d.k \in {"envdesc", "table", "dtc"}
               \/ (d.k \in {"eopfield", "dlfield", "demfield", "sfield"} /\ d.st.k = "struct" /\
                   \E j \in 1..Len(d.st.ps) : d.st.ps[j].dop.k \in {"envdesc", "dtc"})
Heavy(sh) == \E j \in 1..Len(sh) : HeavyDop(sh[j].dop)
\* quick: as first of two shapes only those that change the context of what follows (origin, cursor, keys, claims)
Ctx(i) == {sh \in Inner(i) : \/ sh[1].dop.k \in {"struct", "sfield", "dlfield", "demfield", "mux"}
                             \/ sh[1].k \in {"LENGTH-KEY", "MATCHING-REQUEST-PARAM", "NRC-CONST", "RESERVED"}
                             \/ sh[1].bp >= 0}
\* (the volume of cases grows with the cube: first a shape that changes the context, then a plain one, then any light one)
Plain(i) == {<<Value(Nm("p", i), -1, -1, Simple(U8))>>, <<Const(Nm("c", i), -1, -1, Std("uint", "NONE", 16, FALSE), IntV(4660))>>,
             <<Reserved(Nm("r", i), -1, 4, 4)>>, <<PhysConst(Nm("c", i), -1, Simple(U8), IntV(7))>>}
PickC3 == \E a \in {x \in Ctx(1) : ~Heavy(x)}, b \in Plain(2), c \in {x \in Shapes(3) : ~Heavy(x)} : Pick(D(<<SID>> \o a \o b \o c))

PickC2Quick == \E a \in Ctx(1), b \in Shapes(2) : Pick(D(<<SID>> \o a \o b))
NextQuick == \/ PickA({1, 4, 7, 8, 12, 16, 31, 32, 64}, {-1, 3, 4, 7}, {-1, 2}) \/ PickA2 \/ PickB \/ PickC1 \/ PickC2
             \/ Evaluate
NextThorough == \/ PickA({1, 2, 3, 4, 5, 7, 8, 9, 12, 15, 16, 17, 24, 30, 31, 32, 33, 48, 63, 64}, {-1, 0, 1, 2, 3, 4, 5, 6, 7}, {-1, 0, 2})
                \/ PickA2 \/ PickB \/ PickC1 \/ PickC2 \/ Evaluate
\* the compositions of three shapes are a model run of their own (memory)
NextThorough3 == PickC3 \/ Evaluate
\* C04: the same shapes with the wrong values
\* an object that moves the origin, followed by an explicitly positioned sibling
PickC2C04 == \E a \in {sh \in Inner(1) : sh[1].dop.k = "mux"}, bp \in {1, 3, 4} :
                 Pick(D(<<SID>> \o a \o <<Value("p2", bp, -1, SimpleA(U8, {IntV(5), IntV(200), IntV(256), Bad("str")}))>>))
NextC04Quick == \/ PickA({1, 3, 4, 7, 8, 16, 32, 64}, {-1, 3}, {-1}) \/ PickA2 \/ PickB \/ PickC1 \/ PickC2C04 \/ Evaluate
NextC04Thorough == \/ PickA({1, 2, 3, 4, 5, 6, 7, 8, 12, 16, 31, 32, 33, 63, 64}, {-1, 0, 3, 7}, {-1, 2}) \/ PickA2 \/ PickB \/ PickC1 \/ PickC2C04 \/ Evaluate
SpecC04Quick == Init /\ [][NextC04Quick]_vars
SpecC04Thorough == Init /\ [][NextC04Thorough]_vars
SpecQuick == Init /\ [][NextQuick]_vars
SpecThorough == Init /\ [][NextThorough]_vars
SpecThorough3 == Init /\ [][NextThorough3]_vars

\* debugging aid: print the cases that break a design-level invariant
BadCase(c) == ~c.rt \/ (~c.err /\ ~c.ovl /\ ~HasDem(desc.ps) /\ c.dhi # Len(c.pdu)) \/ ~c.clean
          \/ (~c.err /\ MsgStaticBits(desc.ps) >= 0 /\ 8 * Len(c.pdu) # MsgStaticBits(desc.ps))
          \/ (~c.err /\ ~c.ovl /\ ~IsPrefixOf(ConstPrefix(desc.ps, desc.rq), c.pdu))
DebugBad == Done => \A c \in Cases(desc) : BadCase(c) => PrintT(ToJson([bad |-> c, ps |-> desc.ps]))

Emit == Done => PrintT(ToJson([ps |-> desc.ps, rq |-> desc.rq,
                               static |-> [bits |-> MsgStaticBits(desc.ps), prefix |-> ConstPrefix(desc.ps, desc.rq),
                                           required |-> Required(desc.ps), free |-> Free(desc.ps)],
                               cases |-> Cases(desc)]))
=============================================================================
