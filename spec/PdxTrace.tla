------------------------------ MODULE PdxTrace ------------------------------
(***************************************************************************)
(* Validates sessions executed on the real writer and loaders (one session *)
(* per tid, several sessions per process).  Contents, member blobs and     *)
(* behaviours are interned to integers by the harness (structural digest   *)
(* of all dataclass fields / bytes of a member / results of an encode and  *)
(* decode battery).  Lines:                                                 *)
(*   begin{tid}                                                             *)
(*   have{h, c, b}          handle h holds content c, behaving like b       *)
(*   perturb{h, c, site}    one attribute of h was changed: content now c   *)
(*   write{h, a, members}   h written to archive a; members = <<name, blob>>*)
(*   load{a, entry, h, c, b} archive a loaded into handle h: content c      *)
(*   refresh{h, c, b}       refresh() called again on h: nothing may change *)
(* The specification knows nothing about ODX: it learns Ser (content ->     *)
(* members) and Beh (content -> behaviour) as the session goes and demands  *)
(* that they ARE functions and that loading inverts writing (Pdx.tla:       *)
(* WriteThenLoad, WriteIsStable).                                           *)
(* Monitors (C11): load_differs, rewrite_differs, behaviour_differs,        *)
(*                 refresh_changes_database,                                *)
(*                 perturbation_invisible (machinery: the digest must see   *)
(*                 the changed attribute)                                   *)
(***************************************************************************)
EXTENDS Integers, Sequences, FiniteSets, TLC, Json, IOUtils, TLCExt

VARIABLES l, content, ser, beh, arch
\* content: handle -> content id;  ser: content -> members;  beh: content -> behaviour;  arch: archive -> content written
Log == ndJsonDeserialize(IOEnv.TRACE_FILE)
Has(f, k) == k \in DOMAIN f
Put(f, k, v) == IF Has(f, k) THEN [f EXCEPT ![k] = v] ELSE f @@ (k :> v)
Say(ev, v) == IF v = "ok" THEN TRUE ELSE PrintT(<<"V", ev.tid, l, v>>)

TraceInit == l = 1 /\ content = <<>> /\ ser = <<>> /\ beh = <<>> /\ arch = <<>>
TraceNext ==
    /\ l <= Len(Log)
    /\ l' = l + 1
    /\ LET ev == Log[l] IN
       CASE ev.ev = "begin" -> content' = <<>> /\ ser' = <<>> /\ beh' = <<>> /\ arch' = <<>>
         [] ev.ev = "have" -> /\ content' = Put(content, ev.h, ev.c)
                              /\ Say(ev, IF Has(beh, ev.c) /\ beh[ev.c] # ev.b THEN "behaviour_differs" ELSE "ok")
                              /\ beh' = IF Has(beh, ev.c) THEN beh ELSE Put(beh, ev.c, ev.b)
                              /\ UNCHANGED <<ser, arch>>
         [] ev.ev = "perturb" -> /\ Say(ev, IF Has(content, ev.h) /\ content[ev.h] = ev.c THEN "perturbation_invisible" ELSE "ok")
                                 /\ content' = Put(content, ev.h, ev.c)
                                 /\ UNCHANGED <<ser, beh, arch>>
         [] ev.ev = "refresh" -> /\ Say(ev, IF content[ev.h] # ev.c \/ (Has(beh, ev.c) /\ beh[ev.c] # ev.b)
                                           THEN "refresh_changes_database" ELSE "ok")
                                 /\ UNCHANGED <<content, ser, beh, arch>>
         [] ev.ev = "write" -> /\ LET c == content[ev.h] IN
                                  /\ Say(ev, IF Has(ser, c) /\ ser[c] # ev.members THEN "rewrite_differs" ELSE "ok")
                                  /\ ser' = IF Has(ser, c) THEN ser ELSE Put(ser, c, ev.members)
                                  /\ arch' = Put(arch, ev.a, c)
                               /\ UNCHANGED <<content, beh>>
         [] OTHER -> \* load
                     /\ Say(ev, IF arch[ev.a] # ev.c THEN "load_differs"
                                ELSE IF Has(beh, ev.c) /\ beh[ev.c] # ev.b THEN "behaviour_differs" ELSE "ok")
                     /\ content' = Put(content, ev.h, ev.c)
                     /\ beh' = IF Has(beh, ev.c) THEN beh ELSE Put(beh, ev.c, ev.b)
                     /\ UNCHANGED <<ser, arch>>
TraceSpec == TraceInit /\ [][TraceNext]_<<l, content, ser, beh, arch>>
TraceAccepted == TLCGet("stats").diameter - 1 = Len(Log)
=============================================================================
