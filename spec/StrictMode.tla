----------------------------- MODULE StrictMode -----------------------------
(***************************************************************************)
(* The process-wide strict-mode switch of odxtools (exceptions.strict_mode) *)
(* interleaved with operations of the codec, compu and loader machines.     *)
(* An operation of the catalogue is                                         *)
(*   Valid      it succeeds in strict mode, or                              *)
(*   Sensitive  strict mode reports a problem as a library error which      *)
(*              non-strict mode downgrades (the operation completes).       *)
(* Histories: every sequence of Flip / Op(k) steps up to MaxLen, so the     *)
(* switch is flipped at every point in time.                                *)
(***************************************************************************)
EXTENDS Integers, Sequences, FiniteSets, TLC

CONSTANTS Valid, Sensitive,
          Neutral,      \* operations whose outcome is not prescribed, but which must leave the mode alone (the CLI entry point)
          MaxLen,
          SingleOp      \* TRUE: a history uses one operation only (deep histories per operation)

VARIABLES strict, hist, outcome   \* outcome: what the last step is expected to produce
vars == <<strict, hist, outcome>>
Ops == Valid \cup Sensitive \cup Neutral

Expected(k, s) == IF k \in Valid THEN "ok" ELSE IF k \in Neutral THEN "any" ELSE IF s THEN "liberr" ELSE "downgraded"

Init == strict = TRUE /\ hist = <<>> /\ outcome = "none"
Flip == /\ Len(hist) < MaxLen
        /\ strict' = ~strict /\ hist' = Append(hist, "flip") /\ outcome' = "none"
Op(k) == /\ Len(hist) < MaxLen
         /\ SingleOp => \A i \in 1..Len(hist) : hist[i] \in {"flip", k}
         /\ hist' = Append(hist, k) /\ outcome' = Expected(k, strict) /\ UNCHANGED strict
Next == Flip \/ \E k \in Ops : Op(k)
Spec == Init /\ [][Next]_vars

(* C17 on the design: the mode in force is the one the history says, and only that decides *)
ModeIsParityOfFlips == strict = (Cardinality({i \in 1..Len(hist) : hist[i] = "flip"}) % 2 = 0)
LenientChangesNothingValid == hist # <<>> /\ hist[Len(hist)] \in Valid => outcome = "ok"
FlipIsImmediate == hist # <<>> /\ hist[Len(hist)] \in Sensitive => outcome = (IF strict THEN "liberr" ELSE "downgraded")
=============================================================================
