------------------------------ MODULE MC_Pdx ------------------------------
(* File sets and databases for Pdx.tla (the harness supplies the same documents as ODX XML), JSON emission. *)
EXTENDS Pdx, Json

Doc(n, k) == [name |-> n, kind |-> k, content |-> n]
File(st, su, p) == [stem |-> st, suffix |-> su, payload |-> p]
Dlc1 == Doc("DLC1", "d")        \* two containers referring to each other, a comparam subset and a comparam spec they use
Dlc2 == Doc("DLC2", "d")
Css == Doc("CSS", "cs")
Cs == Doc("CS", "c")
Job == File("job", ".py", "code")
Idx == File("index", ".xml", "MyDb")
Core == {File("DLC1", ".odx-d", Dlc1), File("DLC2", ".odx-d", Dlc2), File("CSS", ".odx-cs", Css), File("CS", ".odx-c", Cs)}
MCFileSets == {
    Core \cup {Job, Idx},
    Core \cup {Job},                                                       \* no catalogue
    {File("DLC1", ".odx", Dlc1), File("DLC2", ".ODX-D", Dlc2), File("CSS", ".odx-cs", Css), File("CS", ".odx-c", Cs), Job, Idx}
  }
MCDatabases == {[docs |-> {Dlc1, Dlc2, Css, Cs}, aux |-> {<<"job", ".py", "code">>}, name |-> "MyDb"],
                [docs |-> {Dlc1, Dlc2, Css, Cs}, aux |-> {<<"job", ".py", "code">>}, name |-> DefaultName]}
Emit == phase = "loading" /\ acc = EmptyAcc =>
          PrintT(ToJson([entry |-> entry, order |-> [i \in DOMAIN todo |-> [stem |-> todo[i].stem, suffix |-> todo[i].suffix]],
                         canon |-> [docs |-> {d.name : d \in Canon(files).docs},
                                    aux |-> {a[1] \o a[2] : a \in Canon(files).aux}, name |-> Canon(files).name]]))
=============================================================================
