SPECIFICATION Spec
CONSTANTS
  ServiceAlphabet <- MCServices
  GnrAlphabet <- MCGnrs
  MaxServices = 3
  Bytes <- MCBytes
  MaxMsgLen = 3
INVARIANT InvTrie
INVARIANT InvOwnAttributed
INVARIANT InvDisjoint
INVARIANT Emit
