------------------------------ MODULE Dispatch ------------------------------
(***************************************************************************)
(* Attribution of a message to the services of a diagnostic layer          *)
(* (DiagLayer.decode / decode_response / service_groups).                  *)
(*                                                                         *)
(* A layer is a set of services plus global negative responses.  Every     *)
(* coding object (request, positive, negative, global negative response)   *)
(* is abstracted to: constant prefix, number of value bytes after it, and  *)
(* optionally an NRC-CONST byte with its admissible values.                *)
(*                                                                         *)
(* Match is three valued: "yes" (prefix, length and NRC fit exactly),      *)
(* "no", and "dontcare" when the object is satisfied by a proper prefix of *)
(* the message (trailing bytes nothing describes: the library accepts      *)
(* them, the property does not say it must).                               *)
(*                                                                         *)
(* Must(layer, M)    services that have an object matching M exactly       *)
(* MustNot(layer, M) services none of whose objects can match M            *)
(* The implementation-shaped part is the prefix trie: Walk collects the    *)
(* candidate services; TrieFindsAllCandidates shows on the design that no  *)
(* service in Must is missed by the trie.                                  *)
(***************************************************************************)
EXTENDS Integers, Sequences, FiniteSets, SequencesExt, TLC

CONSTANTS ServiceAlphabet,   \* set of service records
          GnrAlphabet,       \* set of GNR option records (a sequence of GNRs each)
          MaxServices,
          Bytes,             \* message alphabet
          MaxMsgLen

VARIABLES phase, layer
vars == <<phase, layer>>

\* coding object: [name, pre: Seq(byte), n: value bytes after the prefix, nrcpos: 0-based index of the NRC byte or -1, nrcs]
Obj(name, pre, n, nrcpos, nrcs) == [name |-> name, pre |-> pre, n |-> n, nrcpos |-> nrcpos, nrcs |-> nrcs]

Match(o, M) ==
    IF ~IsPrefix(o.pre, M) \/ Len(M) < Len(o.pre) + o.n THEN "no"
    ELSE IF o.nrcpos >= 0 /\ M[o.nrcpos + 1] \notin o.nrcs THEN "no"
    ELSE IF Len(M) = Len(o.pre) + o.n THEN "yes" ELSE "dontcare"

\* a global negative response seen from service s: the echo of the request's first byte is constant
\* exactly when the request has a constant first byte
GnrFor(g, s) == IF g.echo /\ s.rq.pre # <<>> THEN Obj(g.name, <<127, s.rq.pre[1]>>, 1, -1, {})
                ELSE Obj(g.name, <<127>>, 2, -1, {})
Objects(s, gnrs) == <<s.rq>> \o s.pos \o s.neg \o [i \in 1..Len(gnrs) |-> GnrFor(gnrs[i], s)]
OwnObjects(s) == <<s.rq>> \o s.pos \o s.neg

SvcMatch(s, gnrs, M) ==
    LET ms == {Match(Objects(s, gnrs)[i], M) : i \in 1..Len(Objects(s, gnrs))} IN
    IF "yes" \in ms THEN "yes" ELSE IF "dontcare" \in ms THEN "dontcare" ELSE "no"
Must(l, M) == {s.name : s \in {x \in l.services : SvcMatch(x, l.gnrs, M) = "yes"}}
MustNot(l, M) == {s.name : s \in {x \in l.services : SvcMatch(x, l.gnrs, M) = "no"}}

---------------------------------------------------------------------------
(* the prefix trie, as a set of <<prefix, service name>> entries; Walk = entries whose prefix is a prefix of M *)
Trie(l) == UNION {{<<Objects(s, l.gnrs)[i].pre, s.name>> : i \in 1..Len(Objects(s, l.gnrs))} : s \in l.services}
Walk(l, M) == {e[2] : e \in {t \in Trie(l) : IsPrefix(t[1], M)}}
TrieFindsAllCandidates(l, M) == Must(l, M) \subseteq Walk(l, M)

\* service groups: by the first byte of the request
Groups(l, sid) == {s.name : s \in {x \in l.services : x.rq.pre # <<>> /\ x.rq.pre[1] = sid}}

---------------------------------------------------------------------------
RECURSIVE SeqsUpTo(_, _)
SeqsUpTo(S, n) == IF n = 0 THEN {<<>>} ELSE SeqsUpTo(S, n - 1) \cup {Append(m, b) : m \in {x \in SeqsUpTo(S, n - 1) : Len(x) = n - 1}, b \in S}
Messages == SeqsUpTo(Bytes, MaxMsgLen) \ {<<>>}
\* the exact encodings of every object of every service (value bytes = 5)
OwnMessages(l) == UNION {{Objects(s, l.gnrs)[i].pre \o [k \in 1..Objects(s, l.gnrs)[i].n |->
                              IF Objects(s, l.gnrs)[i].nrcpos = Len(Objects(s, l.gnrs)[i].pre) + k - 1
                              THEN (CHOOSE v \in Objects(s, l.gnrs)[i].nrcs : TRUE) ELSE 5] :
                          i \in 1..Len(Objects(s, l.gnrs))} : s \in l.services}

Init == phase = "build" /\ layer = [services |-> {}, gnrs |-> <<>>]
AddService(s) == /\ phase = "build" /\ Cardinality(layer.services) < MaxServices
                 /\ s \notin layer.services
                 \* canonical order of construction: by name
                 /\ \A x \in layer.services : x.ord < s.ord
                 /\ layer' = [layer EXCEPT !.services = layer.services \cup {s}] /\ UNCHANGED phase
Finish(g) == /\ phase = "build" /\ layer.services # {}
             /\ layer' = [layer EXCEPT !.gnrs = g] /\ phase' = "done"
Next == (\E s \in ServiceAlphabet : AddService(s)) \/ (\E g \in GnrAlphabet : Finish(g))
Spec == Init /\ [][Next]_vars
Done == phase = "done"

(* design-level invariants *)
InvTrie == Done => \A M \in Messages \cup OwnMessages(layer) : TrieFindsAllCandidates(layer, M)
InvOwnAttributed == Done => \A s \in layer.services : \A i \in 1..Len(Objects(s, layer.gnrs)) :
                       LET o == Objects(s, layer.gnrs)[i]
                           M == o.pre \o [k \in 1..o.n |-> IF o.nrcpos = Len(o.pre) + k - 1 THEN (CHOOSE v \in o.nrcs : TRUE) ELSE 5]
                       IN s.name \in Must(layer, M)
InvDisjoint == Done => \A M \in Messages : Must(layer, M) \cap MustNot(layer, M) = {}
=============================================================================
