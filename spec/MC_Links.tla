------------------------------ MODULE MC_Links ------------------------------
EXTENDS Links, Json
SeqOf(S) == LET RECURSIVE F(_)
                F(T) == IF T = {} THEN <<>> ELSE LET x == CHOOSE y \in T : TRUE IN <<x>> \o F(T \ {x})
            IN F(S)
Emit == /\ phase = "ids" => PrintT(ToJson([kind |-> "ids", defs |-> SeqOf(defs), imports |-> SeqOf(imports),
                                           refs |-> {[src |-> r[1], id |-> r[2], doc |-> r[3], target |-> Target(r[1], r[2], r[3])] : r \in Refs}]))
        /\ phase = "sn" => PrintT(ToJson([kind |-> "sn", sn |-> sn, g |-> SnTargetG(sn), a |-> SnTargetA(sn), v |-> SnTargetV(sn),
                                          g2 |-> SnTargetG2(sn), g2v |-> SnTargetG2Retargeted(sn), row |-> SnTargetRowA(sn)]))
=============================================================================
