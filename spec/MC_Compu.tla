----------------------------- MODULE MC_Compu -----------------------------
(* Families of compu method configurations for Compu.tla and the JSON emission of terminal states. *)
EXTENDS Compu, Json

S(lo, hi, num, den) == [lo |-> lo, hi |-> hi, num |-> num, den |-> den, civ |-> NONE, pp |-> 0, txt |-> ""]
CM(cat, it, pt, scales) == [cat |-> cat, it |-> it, pt |-> pt, scales |-> scales, inv |-> <<>>, dflt |-> "",
                            dfltinv |-> NONE, invok |-> FALSE]

NumPairs == {<<"int", "int">>, <<"uint", "float">>, <<"int", "float">>, <<"float", "float">>, <<"float", "int">>}
NumPairs3 == {<<"int", "int">>, <<"int", "float">>, <<"float", "float">>}

(* LINEAR *)
LoLims == {Absent, Lim("CLOSED", 0), Lim("OPEN", 0), Lim("none", 2), Lim("INFINITE", 0), Lim("INFINITEV", 5)}
HiLims == {Absent, Lim("CLOSED", 10), Lim("OPEN", 10), Lim("none", 9), Lim("INFINITE", 0), Lim("INFINITEV", 5)}
LinScale(lo, hi, v0, v1, d) == [S(lo, hi, <<v0, v1>>, <<d>>) EXCEPT !.civ = IF v1 = 0 THEN 7 ELSE NONE]
LinFam(V0, V1, D, Lo, Hi, Pairs) ==
    {CM("LINEAR", tp[1], tp[2], <<LinScale(lo, hi, v0, v1, d)>>) :
        tp \in Pairs, lo \in Lo, hi \in Hi, v0 \in V0, v1 \in V1, d \in D}
\* a LINEAR method whose COMPU-DENOMINATOR is left out
\* slopes whose inverse is not exact in binary floating point, probed over a 7-bit domain
LinWide == {[CM("LINEAR", tp[1], tp[2], <<LinScale(Absent, Absent, v0, 1, d)>>) EXCEPT !.invok = FALSE] @@ [wide |-> TRUE] :
              tp \in {<<"int", "float">>, <<"uint", "float">>}, v0 \in {0, 5}, d \in {3, 10, 7}}
LinNoDen == {CM("LINEAR", "int", "int", <<S(Lim("CLOSED", 0), Lim("CLOSED", 10), <<1, 2>>, <<>>)>>)}

(* SCALE-LINEAR: boundaries 0, 4, 8, 12 *)
Seg1 == {<<0, 1, 1>>, <<0, 2, 1>>, <<0, -1, 1>>, <<3, 0, 1>>}
Seg2 == {<<-4, 2, 1>>, <<0, 1, 1>>, <<0, -1, 1>>, <<4, 1, 2>>}
Seg3 == {<<4, 1, 1>>, <<0, 1, 1>>, <<0, -1, 1>>, <<8, 1, 2>>}
Bk == {"CLOSED", "OPEN"}
SegScale(lo, hi, c) == [S(lo, hi, <<c[1], c[2]>>, <<c[3]>>) EXCEPT !.civ = IF c[2] = 0 THEN 2 ELSE NONE]
ScaleLin2(Pairs) ==
    {CM("SCALE-LINEAR", tp[1], tp[2], <<SegScale(Lim("CLOSED", 0), Lim(h1, 4), a), SegScale(Lim(l2, 4), Lim("CLOSED", 8), b)>>) :
        tp \in Pairs, a \in Seg1, b \in Seg2, h1 \in Bk, l2 \in Bk}
ScaleLin3(Pairs) ==
    {CM("SCALE-LINEAR", tp[1], tp[2], <<SegScale(Lim("CLOSED", 0), Lim(h1, 4), a), SegScale(Lim(l2, 4), Lim(h2, 8), b),
                                        SegScale(Lim(l3, 8), Lim("CLOSED", 12), c)>>) :
        tp \in Pairs, a \in Seg1, b \in Seg2, c \in Seg3, h1 \in Bk, l2 \in Bk, h2 \in Bk, l3 \in Bk}

(* TAB-INTP *)
Pt(x, y) == [S(Lim("CLOSED", x), Absent, <<>>, <<>>) EXCEPT !.pp = y]
YVals == {0, 3, 5, 10}
TabPairs == {<<"int", "int">>, <<"int", "float">>, <<"float", "float">>, <<"float", "int">>}
Tab3(Pairs) == {CM("TAB-INTP", tp[1], tp[2], <<Pt(0, a), Pt(4, b), Pt(10, c)>>) : tp \in Pairs, a \in YVals, b \in YVals, c \in YVals}
Tab4(Pairs) == {CM("TAB-INTP", tp[1], tp[2], <<Pt(0, a), Pt(4, b), Pt(10, c), Pt(12, d)>>) :
                   tp \in Pairs, a \in YVals, b \in YVals, c \in YVals, d \in YVals}

(* RAT-FUNC / SCALE-RAT-FUNC *)
L0 == Lim("CLOSED", 0)
L10 == Lim("CLOSED", 10)
Rat(tp, num, den, inv, ok) == [CM("RAT-FUNC", tp[1], tp[2], <<S(L0, L10, num, den)>>) EXCEPT !.inv = inv, !.invok = ok]
RatFam(Pairs) == UNION {{
    Rat(tp, <<1, 2>>, <<1>>, <<S(Lim("CLOSED", 1), Lim("CLOSED", 21), <<-1, 1>>, <<2>>)>>, TRUE),
    Rat(tp, <<0, 0, 1>>, <<1>>, <<>>, FALSE),
    Rat(tp, <<0, 1>>, <<2, 1>>, <<>>, FALSE),
    Rat(tp, <<3, 1>>, <<>>, <<>>, FALSE),
    Rat(tp, <<0, 4>>, <<2>>, <<S(Lim("CLOSED", 0), Lim("CLOSED", 20), <<0, 1>>, <<2>>)>>, TRUE),
    [CM("SCALE-RAT-FUNC", tp[1], tp[2], <<S(L0, Lim("CLOSED", 4), <<0, 1>>, <<1>>), S(Lim("OPEN", 4), L10, <<0, 0, 1>>, <<4>>)>>)
       EXCEPT !.inv = <<S(L0, Lim("CLOSED", 4), <<0, 1>>, <<1>>)>>]} : tp \in Pairs}

(* TEXTTABLE *)
TS(lo, hi, t, civ) == [S(lo, hi, <<>>, <<>>) EXCEPT !.txt = t, !.civ = civ]
T1 == TS(Lim("CLOSED", 0), Lim("CLOSED", 0), "A", NONE)
T2 == TS(Lim("CLOSED", 1), Lim("CLOSED", 5), "B", NONE)
T2o == TS(Lim("OPEN", 1), Lim("OPEN", 5), "B", 3)
T3 == TS(Lim("none", 7), Absent, "C", NONE)
T4 == TS(Lim("CLOSED", 8), Lim("CLOSED", 9), "D", 9)
T4p == TS(Lim("CLOSED", 8), Lim("CLOSED", 8), "D", 8)
\* half-unbounded ranges: the INFINITE limit carries no value
T5 == TS(Lim("CLOSED", 11), Lim("INFINITE", 0), "E", 12)
T6 == TS(Lim("INFINITE", 0), Lim("OPEN", 3), "F", 2)
TextLists == {<<T1, T5>>, <<T6, T4>>, <<T1, T2>>, <<T1, T2, T3>>, <<T1, T3>>, <<T2o, T4>>, <<T1, T3, T4p>>, <<T3>>}
TextFam == {[CM("TEXTTABLE", it, "text", sc) EXCEPT !.dflt = d, !.dfltinv = di] :
               it \in {"int", "uint"}, sc \in TextLists, d \in {"", "ZZ"}, di \in {NONE, 13}}

Simple == {CM("IDENTICAL", "int", "int", <<>>), CM("IDENTICAL", "uint", "uint", <<>>), CM("IDENTICAL", "float", "float", <<>>),
           CM("COMPUCODE", "int", "int", <<>>)}

PickLin(V0, V1, D, Lo, Hi, Pairs) ==
    \E tp \in Pairs, lo \in Lo, hi \in Hi, v0 \in V0, v1 \in V1, d \in D :
        Pick(CM("LINEAR", tp[1], tp[2], <<LinScale(lo, hi, v0, v1, d)>>))
PickFrom(Fam) == \E c \in Fam : Pick(c)
NextQuick == \/ PickLin({0, 5}, {-2, 0, 1, 3}, {1, 2, 10}, {Absent, Lim("CLOSED", 0), Lim("OPEN", 0), Lim("INFINITEV", 5)},
                        {Absent, Lim("CLOSED", 10), Lim("OPEN", 10), Lim("INFINITE", 0), Lim("INFINITEV", 5)}, NumPairs)
             \/ PickFrom(LinNoDen) \/ PickFrom(LinWide) \/ PickFrom(ScaleLin2(NumPairs3)) \/ PickFrom(Tab3(TabPairs))
             \/ PickFrom(RatFam(NumPairs3)) \/ PickFrom(TextFam) \/ PickFrom(Simple) \/ Evaluate
NextThorough == \/ PickLin({-3, 0, 5}, {-2, 0, 1, 3}, {1, 2, 3, 10}, LoLims, HiLims, NumPairs)
                \/ PickFrom(LinNoDen) \/ PickFrom(LinWide) \/ PickFrom(ScaleLin2(NumPairs3)) \/ PickFrom(ScaleLin3(NumPairs3))
                \/ PickFrom(Tab3(TabPairs)) \/ PickFrom(Tab4({<<"int", "int">>, <<"int", "float">>}))
                \/ PickFrom(RatFam(NumPairs3)) \/ PickFrom(TextFam) \/ PickFrom(Simple) \/ Evaluate
SpecQuick == Init /\ [][NextQuick]_vars
SpecThorough == Init /\ [][NextThorough]_vars

Emit == Done => PrintT(ToJson([cm |-> cm, injective |-> Injective(cm), moncont |-> MonCont(cm),
                               itab |-> ITab(cm), ptab |-> PTab(cm), ttab |-> TTab(cm)]))
=============================================================================
