--------------------------- MODULE VariantMatcher ---------------------------
(***************************************************************************)
(* odxtools.variantmatcher.VariantMatcher: identification of the ECU or    *)
(* base variant by sending identification requests and comparing the       *)
(* decoded responses with the expected values of the variant patterns.     *)
(*                                                                         *)
(* Build phase (actions): a candidate list is built parameter by           *)
(* parameter, an ECU (a function service -> response kind) and the cache   *)
(* setting are picked.  Run phase: one action per step of request_loop():  *)
(* CacheHit / Yield / Evaluate advance a cursor (variant, pattern, param). *)
(*                                                                         *)
(* FirstMatch is the declarative statement of C14; the run phase is the    *)
(* implementation-shaped machine whose behaviours are replayed into the    *)
(* real matcher.                                                           *)
(***************************************************************************)
EXTENDS Integers, Sequences, FiniteSets, TLC

CONSTANTS MaxVariants, MaxPatterns, MaxParams,   \* bounds of the build phase
          Services,        \* e.g. {1, 2}: identification services (shared by all candidates)
          Params,          \* alphabet of matching parameters: records [svc, exp, tgt]
          Kinds            \* alphabet of ECU response kinds: records [id, sp, f] or [err |-> TRUE]

VARIABLES phase,           \* "build" | "ecu" | "run" | "wait" | "done"
          cands,           \* Seq(variant); variant = Seq(pattern); pattern = Seq(matching parameter)
          ecu,             \* [Services -> Kinds]
          cache,           \* BOOLEAN: use_cache
          vi, pi, mi,      \* cursor: variant, pattern, matching parameter (1-based)
          known,           \* set of services whose response is cached
          reqs,            \* sequence of services for which a request was yielded
          result           \* 0 = no match, k = k-th candidate matches, -1 = pending

vars == <<phase, cands, ecu, cache, vi, pi, mi, known, reqs, result>>

---------------------------------------------------------------------------
(* What the response of kind k says about matching parameter mp            *)
(*   tgt "top":    OUT-PARAM-IF-SNREF to a top-level parameter             *)
(*   tgt "struct": OUT-PARAM-IF-SNPATHREF st.p into a structure            *)
(*   tgt "field":  OUT-PARAM-IF-SNPATHREF fl.p into a field: any item      *)
IsErr(k) == "err" \in DOMAIN k
ParamMatches(mp, e) ==
    LET k == e[mp.svc] IN
    /\ ~IsErr(k)
    /\ CASE mp.tgt = "top" -> k.id = mp.exp
         [] mp.tgt = "struct" -> k.sp = mp.exp
         [] mp.tgt = "field" -> \E j \in 1..Len(k.f) : k.f[j] = mp.exp
PatternMatches(p, e) == \A j \in 1..Len(p) : ParamMatches(p[j], e)
VariantMatches(v, e) == \E j \in 1..Len(v) : PatternMatches(v[j], e)

(* C14: the FIRST candidate in list order that has a matching pattern *)
FirstMatch(cs, e) ==
    IF \E i \in 1..Len(cs) : VariantMatches(cs[i], e)
    THEN CHOOSE i \in 1..Len(cs) : VariantMatches(cs[i], e) /\ \A j \in 1..(i - 1) : ~VariantMatches(cs[j], e)
    ELSE 0
IdentServices(cs) == {cs[i][j][k].svc : <<i, j, k>> \in {t \in (1..MaxVariants) \X (1..MaxPatterns) \X (1..MaxParams) :
                          t[1] <= Len(cs) /\ t[2] <= Len(cs[t[1]]) /\ t[3] <= Len(cs[t[1]][t[2]])}}

---------------------------------------------------------------------------
Init == /\ phase = "build" /\ cands = <<>> /\ ecu = [s \in Services |-> CHOOSE k \in Kinds : TRUE]
        /\ cache = FALSE /\ vi = 1 /\ pi = 1 /\ mi = 1 /\ known = {} /\ reqs = <<>> /\ result = -1

(* build phase: canonical order - always extend the last variant / last pattern *)
AddVariant == /\ phase = "build" /\ Len(cands) < MaxVariants
              /\ (IF cands = <<>> THEN TRUE ELSE \A j \in 1..Len(cands[Len(cands)]) : cands[Len(cands)][j] # <<>>)
              /\ cands' = Append(cands, <<>>)
              /\ UNCHANGED <<phase, ecu, cache, vi, pi, mi, known, reqs, result>>
AddPattern == /\ phase = "build" /\ cands # <<>>
              /\ LET v == cands[Len(cands)] IN
                 /\ Len(v) < MaxPatterns
                 /\ (IF v = <<>> THEN TRUE ELSE v[Len(v)] # <<>>)
                 /\ cands' = [cands EXCEPT ![Len(cands)] = Append(v, <<>>)]
              /\ UNCHANGED <<phase, ecu, cache, vi, pi, mi, known, reqs, result>>
AddParam(mp) == /\ phase = "build" /\ cands # <<>> /\ cands[Len(cands)] # <<>>
                /\ LET v == cands[Len(cands)]
                       p == v[Len(v)] IN
                   /\ Len(p) < MaxParams
                   /\ cands' = [cands EXCEPT ![Len(cands)] = [v EXCEPT ![Len(v)] = Append(p, mp)]]
                /\ UNCHANGED <<phase, ecu, cache, vi, pi, mi, known, reqs, result>>
\* every pattern needs at least one matching parameter (ISO 22901-1; the loader enforces it)
WellFormed == \A i \in 1..Len(cands) : \A j \in 1..Len(cands[i]) : cands[i][j] # <<>>
EndBuild == /\ phase = "build" /\ WellFormed
            /\ phase' = "ecu"
            /\ UNCHANGED <<cands, ecu, cache, vi, pi, mi, known, reqs, result>>
PickEcu(e, c) == /\ phase = "ecu"
                 /\ ecu' = e /\ cache' = c /\ phase' = "run"
                 /\ UNCHANGED <<cands, vi, pi, mi, known, reqs, result>>

---------------------------------------------------------------------------
(* run phase: request_loop()                                               *)
CurVariant == cands[vi]
CurPattern == CurVariant[pi]
CurParam == CurPattern[mi]

\* after the comparison of the current matching parameter
Advance(matched) ==
    IF matched
    THEN IF mi < Len(CurPattern)
         THEN /\ mi' = mi + 1 /\ UNCHANGED <<vi, pi, result>> /\ phase' = "run"      \* next parameter
         ELSE /\ result' = vi /\ phase' = "done" /\ UNCHANGED <<vi, pi, mi>>          \* pattern matched: done
    ELSE IF pi < Len(CurVariant)
         THEN /\ pi' = pi + 1 /\ mi' = 1 /\ UNCHANGED <<vi, result>> /\ phase' = "run"   \* next pattern
         ELSE /\ vi' = vi + 1 /\ pi' = 1 /\ mi' = 1 /\ UNCHANGED result /\ phase' = "run"  \* next variant

\* the cursor stands on a variant without patterns, or past the end
SkipEmpty == /\ phase = "run" /\ vi <= Len(cands) /\ CurVariant = <<>>
             /\ vi' = vi + 1 /\ pi' = 1 /\ mi' = 1
             /\ UNCHANGED <<phase, cands, ecu, cache, known, reqs, result>>
Finish == /\ phase = "run" /\ vi > Len(cands)
          /\ result' = 0 /\ phase' = "done"
          /\ UNCHANGED <<cands, ecu, cache, vi, pi, mi, known, reqs>>
CacheHit == /\ phase = "run" /\ vi <= Len(cands) /\ CurVariant # <<>>
            /\ cache /\ CurParam.svc \in known
            /\ Advance(ParamMatches(CurParam, ecu))
            /\ UNCHANGED <<cands, ecu, cache, known, reqs>>
Yield == /\ phase = "run" /\ vi <= Len(cands) /\ CurVariant # <<>>
         /\ ~(cache /\ CurParam.svc \in known)
         /\ reqs' = Append(reqs, CurParam.svc)
         /\ phase' = "wait"
         /\ UNCHANGED <<cands, ecu, cache, vi, pi, mi, known, result>>
Evaluate == /\ phase = "wait"
            /\ known' = IF cache THEN known \cup {CurParam.svc} ELSE known
            /\ Advance(ParamMatches(CurParam, ecu))
            /\ UNCHANGED <<cands, ecu, cache, reqs>>

Next == \/ AddVariant \/ AddPattern \/ \E mp \in Params : AddParam(mp) \/ EndBuild
        \/ \E e \in [Services -> Kinds], c \in BOOLEAN : PickEcu(e, c)
        \/ SkipEmpty \/ Finish \/ CacheHit \/ Yield \/ Evaluate

Spec == Init /\ [][Next]_vars

---------------------------------------------------------------------------
(* design-level invariants *)
ResultIsFirstMatch == phase = "done" => result = FirstMatch(cands, ecu)
PendingUntilLoopEnds == phase # "done" => result = -1
OnlyIdentRequests == \A j \in 1..Len(reqs) : reqs[j] \in IdentServices(cands)
NoDuplicateRequestWithCache == cache => \A j, k \in 1..Len(reqs) : j # k => reqs[j] # reqs[k]
CursorInRange == phase \in {"run", "wait"} /\ vi <= Len(cands) /\ CurVariant # <<>>
                    => pi \in 1..Len(CurVariant) /\ mi \in 1..Len(CurPattern)
=============================================================================
