------------------------------- MODULE Compare -------------------------------
(***************************************************************************)
(* What the comparison tool has to report for two versions of a diagnostic *)
(* layer (C18), and the layer overview.                                     *)
(*                                                                         *)
(* A version ("side") is a sequence of services plus a table of data       *)
(* objects (DOPs).  A service has a name, optionally a request, one        *)
(* positive and one negative response; each is a sequence of parameters    *)
(* [k, n, bp, bits, cv, sem, dt, dop].                                      *)
(*                                                                         *)
(* Report(O, N) is the DECLARATIVE classification:                          *)
(*   - services are matched by name;                                       *)
(*   - a name only in N whose constant request prefix equals that of       *)
(*     exactly one service whose name is only in O is that service,        *)
(*     renamed; other names only in N are new, other names only in O are   *)
(*     deleted;                                                            *)
(*   - matched (or renamed) services whose parameters differ in an         *)
(*     attribute are "changed", with the position of each such parameter   *)
(*     and the labels of the attributes that differ.                       *)
(* The behaviours are sessions of edits: Pick a base, then Add, Delete,    *)
(* Rename, SetAttr, EditDop steps.  TLC checks that Report classifies      *)
(* every single edit as exactly that edit (SingleEditExact), that a version*)
(* compared with itself is unchanged (SelfCompareEmpty) and that the       *)
(* classification is symmetric (SwapSymmetric).  The harness rebuilds both *)
(* versions as ODX and compares the tool's dictionaries with Report.       *)
(***************************************************************************)
EXTENDS Integers, Sequences, FiniteSets, TLC

CONSTANTS Alphabet,      \* sequence of service records (canonical order)
          Dops0,         \* initial DOP table: name -> [bits, pt]
          NewNames,      \* names a service may be renamed to
          MaxServices,   \* size of the base layer
          MaxEdits

VARIABLES phase, old, new, edits
vars == <<phase, old, new, edits>>

---------------------------------------------------------------------------
(* parameters and services *)
Cst(n, cv) == [k |-> "CONST", n |-> n, bp |-> -1, bits |-> 8, cv |-> cv, sem |-> "", dt |-> "A_UINT32", dop |-> ""]
Val(n, d) == [k |-> "VALUE", n |-> n, bp |-> -1, bits |-> 0, cv |-> -1, sem |-> "", dt |-> "", dop |-> d]
Phc(n, d, c) == [k |-> "PHYSCONST", n |-> n, bp |-> -1, bits |-> 0, cv |-> c, sem |-> "", dt |-> "", dop |-> d]
Service(name, hasrq, rq, pos, neg) == [name |-> name, hasrq |-> hasrq, rq |-> rq, pos |-> pos, neg |-> neg]

Names(side) == {side.svcs[i].name : i \in DOMAIN side.svcs}
Get(side, nm) == side.svcs[CHOOSE i \in DOMAIN side.svcs : side.svcs[i].name = nm]
Msg(s, w) == CASE w = "rq" -> s.rq [] w = "pos" -> s.pos [] OTHER -> s.neg
Wheres == {"rq", "pos", "neg"}

\* the constant prefix of a request: the bytes of the leading CODED-CONST / PHYS-CONST parameters at implicit positions
\* (a PHYS-CONST is encoded through its data object: identity conversion, dops[..].bits wide)
BytesOf(v, bits) == IF bits = 8 THEN <<v>> ELSE <<v \div 256, v % 256>>
RECURSIVE PfxFrom(_, _, _)
PfxFrom(ps, i, dops) ==
    IF i > Len(ps) \/ ps[i].k = "VALUE" \/ ps[i].bp # -1 THEN <<>>
    ELSE BytesOf(ps[i].cv, IF ps[i].k = "CONST" THEN ps[i].bits ELSE dops[ps[i].dop].bits) \o PfxFrom(ps, i + 1, dops)
Pfx(s, dops) == PfxFrom(s.rq, 1, dops)

---------------------------------------------------------------------------
(* attribute-wise comparison of two parameters (n = new side, o = old side) *)
BitLen(p, dops) == IF p.k = "CONST" THEN p.bits ELSE dops[p.dop].bits
Labels(pn, dn, po, do) ==
    (IF pn.n # po.n THEN {"Parameter name"} ELSE {}) \cup
    (IF pn.bp # po.bp THEN {"Byte position"} ELSE {}) \cup
    (IF BitLen(pn, dn) # BitLen(po, do) THEN {"Bit Length"} ELSE {}) \cup
    (IF pn.sem # po.sem THEN {"Semantic"} ELSE {}) \cup
    (IF pn.k # po.k THEN {"Parameter type"} ELSE {}) \cup
    (IF pn.k = "CONST" /\ po.k = "CONST"
       THEN (IF pn.dt # po.dt THEN {"Data type"} ELSE {}) \cup (IF pn.cv # po.cv THEN {"Value"} ELSE {})
     ELSE IF pn.k # "CONST" /\ po.k # "CONST"
       THEN (IF pn.dop # po.dop \/ dn[pn.dop] # do[po.dop] THEN {"Linked DOP object"} ELSE {}) \cup
            (IF pn.dop # po.dop THEN {" DOP name"} ELSE {}) \cup
            (IF dn[pn.dop].pt # do[po.dop].pt THEN {" DOP physical data type"} ELSE {}) \cup
            (IF pn.k = "PHYSCONST" /\ po.k = "PHYSCONST" /\ pn.cv # po.cv THEN {"Constant value"} ELSE {})
     ELSE {})

\* differences of two services: <<where, index, labels>>; a differing number of parameters is <<where, 0, {"list"}>>
Diffs(sn, dn, so, do) ==
    UNION {IF Len(Msg(sn, w)) # Len(Msg(so, w)) \/ (w = "rq" /\ sn.hasrq # so.hasrq) THEN {<<w, 0, {"list"}>>}
           ELSE {<<w, i, Labels(Msg(sn, w)[i], dn, Msg(so, w)[i], do)>> :
                   i \in {j \in DOMAIN Msg(sn, w) : Labels(Msg(sn, w)[j], dn, Msg(so, w)[j], do) # {}}} : w \in Wheres}

---------------------------------------------------------------------------
(* the classification *)
OnlyIn(A, B) == Names(A) \ Names(B)
SamePfx(s, ds, t, dt) == s.hasrq /\ t.hasrq /\ Pfx(s, ds) = Pfx(t, dt)
Partners(O, N, nm) == {o \in OnlyIn(O, N) : SamePfx(Get(N, nm), N.dops, Get(O, o), O.dops)}       \* what nm may have been called before
Rivals(O, N, o) == {n \in OnlyIn(N, O) : SamePfx(Get(N, n), N.dops, Get(O, o), O.dops)}
Report(O, N) ==
    LET onlyN == OnlyIn(N, O)
        onlyO == OnlyIn(O, N)
        ren == {<<n, o>> \in onlyN \X onlyO : Partners(O, N, n) = {o} /\ Rivals(O, N, o) = {n}}
        amb == \E n \in onlyN : Cardinality(Partners(O, N, n)) > 1 \/ \E o \in Partners(O, N, n) : Cardinality(Rivals(O, N, o)) > 1
        pairs == {<<n, n>> : n \in Names(N) \cap Names(O)} \cup ren
        det == UNION {{<<pr[1], d[1], d[2], d[3]>> : d \in Diffs(Get(N, pr[1]), N.dops, Get(O, pr[2]), O.dops)} : pr \in pairs}
    IN [new |-> {n \in onlyN : Partners(O, N, n) = {}},
        deleted |-> {o \in onlyO : Rivals(O, N, o) = {}},
        renamed |-> ren,
        changed |-> {d[1] : d \in det},
        details |-> det,
        ambiguous |-> amb]
Empty == [new |-> {}, deleted |-> {}, renamed |-> {}, changed |-> {}, details |-> {}, ambiguous |-> FALSE]

(* the layer overview *)
UsedDops(side) == DOMAIN side.dops
Metrics(side) == [services |-> Len(side.svcs), dops |-> Cardinality(UsedDops(side))]

---------------------------------------------------------------------------
(* edits; v is [s |-> string value, n |-> integer value] *)
Ed(t, a, b, w, i, v) == [t |-> t, a |-> a, b |-> b, w |-> w, i |-> i, v |-> v]
NV(n) == [s |-> "", n |-> n]
SV(s) == [s |-> s, n |-> 0]
InsertAt(seq, i, x) == SubSeq(seq, 1, i - 1) \o <<x>> \o SubSeq(seq, i, Len(seq))
RemoveAt(seq, i) == SubSeq(seq, 1, i - 1) \o SubSeq(seq, i + 1, Len(seq))
IdxOf(side, nm) == CHOOSE i \in DOMAIN side.svcs : side.svcs[i].name = nm

\* the values an attribute of parameter p may be changed to (one each is enough: the report only says "differs")
AttrEdits(p) ==
    {<<"bp", NV(IF p.bp = -1 THEN 7 ELSE -1)>>, <<"sem", SV(IF p.sem = "" THEN "DATA" ELSE "")>>} \cup
    (IF p.k = "CONST" THEN {<<"bits", NV(IF p.bits = 8 THEN 16 ELSE 8)>>, <<"cv", NV(p.cv + 1)>>,
                            <<"dt", SV(IF p.dt = "A_UINT32" THEN "A_INT32" ELSE "A_UINT32")>>}
     ELSE {<<"dop", SV(IF p.dop = "d1" THEN "d2" ELSE "d1")>>}) \cup
    (IF p.k = "PHYSCONST" THEN {<<"cv", NV(p.cv + 1)>>} ELSE {})
SetP(p, attr, v) == IF attr \in {"bp", "bits", "cv"} THEN [p EXCEPT ![attr] = v.n] ELSE [p EXCEPT ![attr] = v.s]
SetMsg(s, w, ps) == CASE w = "rq" -> [s EXCEPT !.rq = ps] [] w = "pos" -> [s EXCEPT !.pos = ps] [] OTHER -> [s EXCEPT !.neg = ps]

Init == phase = "pick" /\ old = [svcs |-> <<>>, dops |-> Dops0] /\ new = old /\ edits = <<>>
\* the base: a subsequence of the alphabet
Pick == /\ phase = "pick"
        /\ \E S \in SUBSET (DOMAIN Alphabet) :
              /\ Cardinality(S) <= MaxServices
              /\ LET RECURSIVE Sub(_)
                     Sub(i) == IF i > Len(Alphabet) THEN <<>> ELSE (IF i \in S THEN <<Alphabet[i]>> ELSE <<>>) \o Sub(i + 1)
                 IN old' = [svcs |-> Sub(1), dops |-> Dops0]
        /\ new' = old' /\ phase' = "edit" /\ edits' = <<>>
CanEdit == phase = "edit" /\ Len(edits) < MaxEdits
Add == /\ CanEdit
       /\ \E k \in DOMAIN Alphabet, at \in 1..(Len(new.svcs) + 1) :
            /\ Alphabet[k].name \notin Names(new) \cup Names(old)
            /\ new' = [new EXCEPT !.svcs = InsertAt(@, at, Alphabet[k])]
            /\ edits' = Append(edits, Ed("add", Alphabet[k].name, "", "", at, NV(0)))
       /\ UNCHANGED <<phase, old>>
Delete == /\ CanEdit
          /\ \E i \in DOMAIN new.svcs :
               /\ new' = [new EXCEPT !.svcs = RemoveAt(@, i)]
               /\ edits' = Append(edits, Ed("del", new.svcs[i].name, "", "", i, NV(0)))
          /\ UNCHANGED <<phase, old>>
Rename == /\ CanEdit
          /\ \E i \in DOMAIN new.svcs, nn \in NewNames :
               /\ nn \notin Names(new) \cup Names(old)
               /\ new.svcs[i].name \in Names(old)                 \* one rename per service
               /\ new' = [new EXCEPT !.svcs[i].name = nn]
               /\ edits' = Append(edits, Ed("ren", new.svcs[i].name, nn, "", i, NV(0)))
          /\ UNCHANGED <<phase, old>>
\* with more than one edit, byte positions of leading request constants stay implicit (Pfx is the simple prefix)
SetAttr == /\ CanEdit
           /\ \E i \in DOMAIN new.svcs, w \in Wheres :
                \E j \in DOMAIN Msg(new.svcs[i], w) :
                  \E ae \in AttrEdits(Msg(new.svcs[i], w)[j]) :
                     /\ MaxEdits > 1 /\ w = "rq" /\ ae[1] = "bp" => j > Len(Pfx(new.svcs[i], new.dops))
                     /\ new' = [new EXCEPT !.svcs[i] = SetMsg(@, w, [Msg(@, w) EXCEPT ![j] = SetP(@, ae[1], ae[2])])]
                     /\ edits' = Append(edits, Ed("attr", new.svcs[i].name, ae[1], w, j, ae[2]))
           /\ UNCHANGED <<phase, old>>
\* a data object changed in place (same name and ID): every parameter linked to it changes
EditDop == /\ CanEdit
           /\ \E d \in DOMAIN new.dops, f \in {"bits", "pt"} :
                /\ new' = [new EXCEPT !.dops[d] = IF f = "bits" THEN [@ EXCEPT !.bits = IF @ = 8 THEN 16 ELSE 8]
                                                    ELSE [@ EXCEPT !.pt = IF @ = "A_UINT32" THEN "A_INT32" ELSE "A_UINT32"]]
                /\ edits' = Append(edits, Ed("dop", d, f, "", 0, NV(0)))
           /\ UNCHANGED <<phase, old>>
Next == Pick \/ Add \/ Delete \/ Rename \/ SetAttr \/ EditDop
Spec == Init /\ [][Next]_vars

---------------------------------------------------------------------------
(* C18 on the design *)
SelfCompareEmpty == Report(old, old) = Empty /\ Report(new, new) = Empty
Unedited == edits = <<>> => Report(old, new) = Empty

LabelOf(e, p) == CASE e.b = "bp" -> "Byte position" [] e.b = "bits" -> "Bit Length" [] e.b = "sem" -> "Semantic"
                   [] e.b = "dt" -> "Data type" [] e.b = "dop" -> "Linked DOP object"
                   [] e.b = "cv" -> (IF p.k = "CONST" THEN "Value" ELSE "Constant value")
UsersOf(side, d) == {u \in UNION {{<<side.svcs[i].name, w, j>> : j \in DOMAIN Msg(side.svcs[i], w)} : i \in DOMAIN side.svcs, w \in Wheres} :
                        Msg(Get(side, u[1]), u[2])[u[3]].dop = d}
\* exactly that kind of change for exactly that service
SingleEditExact ==
    Len(edits) = 1 =>
      LET e == edits[1]
          r == Report(old, new)
      IN /\ ~r.ambiguous
         /\ CASE e.t = "add" -> r = [Empty EXCEPT !.new = {e.a}]
              [] e.t = "del" -> r = [Empty EXCEPT !.deleted = {e.a}]
              \* a service without a request has nothing to be recognised by: its renaming is a deletion plus an addition
              [] e.t = "ren" -> IF Get(old, e.a).hasrq THEN r = [Empty EXCEPT !.renamed = {<<e.b, e.a>>}]
                                ELSE r = [Empty EXCEPT !.new = {e.b}, !.deleted = {e.a}]
              [] e.t = "attr" -> /\ r.new = {} /\ r.deleted = {} /\ r.renamed = {} /\ r.changed = {e.a}
                                 /\ \E d \in r.details : d[1] = e.a /\ d[2] = e.w /\ d[3] = e.i /\ LabelOf(e, Msg(Get(old, e.a), e.w)[e.i]) \in d[4]
                                 /\ Cardinality(r.details) = 1
              [] e.t = "dop" -> /\ r.new = {} /\ r.deleted = {} /\ r.renamed = {}
                                /\ {<<d[1], d[2], d[3]>> : d \in r.details} = UsersOf(old, e.a)
                                /\ \A d \in r.details : "Linked DOP object" \in d[4]
SwapSymmetric ==
    LET a == Report(old, new)
        b == Report(new, old)
    IN /\ a.new = b.deleted /\ a.deleted = b.new /\ a.changed \cap Names(old) = b.changed \cap Names(new)
       /\ a.renamed = {<<p[2], p[1]>> : p \in b.renamed}
=============================================================================
