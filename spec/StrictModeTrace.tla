--------------------------- MODULE StrictModeTrace ---------------------------
(***************************************************************************)
(* Validates histories executed on the real library (one Python process    *)
(* per history, the flag is process wide).  Lines:                          *)
(*   init{valid, sensitive}   flip{to}                                      *)
(*   op{k, res, digest, seen}  res: "ok" | "liberr" | "foreign";            *)
(*                             seen: values of strict_mode that odxraise()  *)
(*                             observed during the operation (hook)         *)
(* Monitors (C17):  mode_changed_by_operation, stale_flag, lenient_differs, valid_fails,               *)
(*                  not_reported_in_strict, not_downgraded                  *)
(***************************************************************************)
EXTENDS Integers, Sequences, FiniteSets, TLC, Json, IOUtils, TLCExt

VARIABLES l, strict, valid, sensitive, ref    \* ref: op name -> digest of its first successful result
Log == ndJsonDeserialize(IOEnv.TRACE_FILE)

Has(f, k) == k \in DOMAIN f
Verdict(ev) ==
    IF ev.mode_after # strict THEN "mode_changed_by_operation"
    ELSE IF \E i \in 1..Len(ev.seen) : ev.seen[i] # strict THEN "stale_flag"
    ELSE IF ev.k \in valid THEN
        (IF ev.res # "ok" THEN "valid_fails"
         ELSE IF Has(ref, ev.k) /\ ref[ev.k] # ev.digest THEN "lenient_differs" ELSE "ok")
    ELSE IF ev.k \in sensitive THEN
        (IF strict /\ ev.res = "ok" THEN "not_reported_in_strict"
         ELSE IF ~strict /\ ev.res # "ok" THEN "not_downgraded" ELSE "ok")
    ELSE "ok"

TraceInit == l = 1 /\ strict = TRUE /\ valid = {} /\ sensitive = {} /\ ref = <<>>
TraceNext ==
    /\ l <= Len(Log)
    /\ l' = l + 1
    /\ LET ev == Log[l] IN
       CASE ev.ev = "init" -> /\ strict' = TRUE /\ ref' = <<>>
                              /\ valid' = {ev.valid[i] : i \in 1..Len(ev.valid)}
                              /\ sensitive' = {ev.sensitive[i] : i \in 1..Len(ev.sensitive)}
         [] ev.ev = "flip" -> strict' = ev.to /\ UNCHANGED <<valid, sensitive, ref>>
         [] OTHER -> /\ LET v == Verdict(ev) IN IF v = "ok" THEN TRUE ELSE PrintT(<<"V", ev.tid, l, v>>)
                     /\ ref' = IF ev.k \in valid /\ ev.res = "ok" /\ ~Has(ref, ev.k) THEN ref @@ (ev.k :> ev.digest) ELSE ref
                     /\ UNCHANGED <<strict, valid, sensitive>>
TraceSpec == TraceInit /\ [][TraceNext]_<<l, strict, valid, sensitive, ref>>
TraceAccepted == TLCGet("stats").diameter - 1 = Len(Log)
=============================================================================
