CONSTANT Wrong = TRUE
SPECIFICATION SpecC04Thorough
INVARIANT UndescribedBitsZero
INVARIANT RoundTrip
INVARIANT Emit
