---------------------------- MODULE MC_Dispatch ----------------------------
(* Service alphabet for Dispatch.tla (the harness emits the same services as ODX XML) and JSON emission. *)
EXTENDS Dispatch, Json

Svc(name, ord, rq, pos, neg) == [name |-> name, ord |-> ord, rq |-> rq, pos |-> pos, neg |-> neg]
\* Sa: 10 v        -> 50 v (echo of the value: a MATCHING-REQUEST-PARAM outside the constant request prefix)
\* Sb: 22 v        -> 62 v           neg 7F 22 NRC{31,33}
\* Sc: 22 F1 v v   -> 62 F1 v        (prefix nested in Sb's)
\* Sd: 22 F1 90    -> 62 F1 90 v     (prefix nested in Sc's)
\* Se: v           -> 40 v           (empty constant prefix)
\* Sf: 31 v v      -> 71 v v
\* Sg: 22 v v      -> 62 v v         (same prefix as Sb, different length)
\* Sh: 2EF1 v      -> 6EF1 v         (SID and identifier in ONE 16 bit constant)
\* Sk: FF v        -> BF v           (the last service identifier)
\* Si: 85 v        -> C5 v           neg 7F 85 NRC{12} and, a second response, 7F 85 NRC{22}
MCServices == {
  Svc("Sa", 1, Obj("RQ_Sa", <<16>>, 1, -1, {}), <<Obj("PR_Sa", <<80>>, 1, -1, {})>>, <<>>),
  Svc("Sb", 2, Obj("RQ_Sb", <<34>>, 1, -1, {}), <<Obj("PR_Sb", <<98>>, 1, -1, {})>>, <<Obj("NR_Sb", <<127, 34>>, 1, 2, {49, 51})>>),
  Svc("Sc", 3, Obj("RQ_Sc", <<34, 241>>, 2, -1, {}), <<Obj("PR_Sc", <<98, 241>>, 1, -1, {})>>, <<>>),
  Svc("Sd", 4, Obj("RQ_Sd", <<34, 241, 144>>, 0, -1, {}), <<Obj("PR_Sd", <<98, 241, 144>>, 1, -1, {})>>, <<>>),
  Svc("Se", 5, Obj("RQ_Se", <<>>, 1, -1, {}), <<Obj("PR_Se", <<64>>, 1, -1, {})>>, <<>>),
  Svc("Sf", 6, Obj("RQ_Sf", <<49>>, 2, -1, {}), <<Obj("PR_Sf", <<113>>, 2, -1, {})>>, <<>>),
  Svc("Sg", 7, Obj("RQ_Sg", <<34>>, 2, -1, {}), <<Obj("PR_Sg", <<98>>, 2, -1, {})>>, <<>>),
  Svc("Sh", 8, Obj("RQ_Sh", <<46, 241>>, 1, -1, {}), <<Obj("PR_Sh", <<110, 241>>, 1, -1, {})>>, <<>>),
  Svc("Sj", 10, Obj("RQ_Sj", <<0>>, 1, -1, {}), <<Obj("PR_Sj", <<64>>, 1, -1, {})>>, <<>>),     \* the service identifier 00
  Svc("Sk", 11, Obj("RQ_Sk", <<255>>, 1, -1, {}), <<Obj("PR_Sk", <<191>>, 1, -1, {})>>, <<>>),   \* the service identifier FF
  Svc("Si", 9, Obj("RQ_Si", <<133>>, 1, -1, {}), <<Obj("PR_Si", <<197>>, 1, -1, {})>>,
      <<Obj("NR_Si", <<127, 133>>, 1, 2, {18}), Obj("NR_Si_2", <<127, 133>>, 1, 2, {34})>>)
}
\* global negative responses: with the echo of the request's first byte, and without
MCGnrs == {<<>>, <<[name |-> "GNR1", echo |-> TRUE]>>, <<[name |-> "GNR2", echo |-> FALSE]>>}
MCBytes == {16, 34, 241, 144, 49, 98, 127, 5, 46, 133, 0, 255}

AllMsgs == Messages \cup OwnMessages(layer)
OwnMsg(o) == o.pre \o [k \in 1..o.n |-> IF o.nrcpos = Len(o.pre) + k - 1 THEN (CHOOSE v \in o.nrcs : TRUE) ELSE 5]
Emit == Done => PrintT(ToJson([services |-> {s.name : s \in layer.services},
                               gnrs |-> [i \in 1..Len(layer.gnrs) |-> layer.gnrs[i].name],
                               table |-> {[m |-> M, must |-> Must(layer, M), mustnot |-> MustNot(layer, M)] : M \in AllMsgs},
                               own |-> UNION {{[svc |-> s.name, obj |-> Objects(s, layer.gnrs)[i].name, gnr |-> i > Len(OwnObjects(s)),
                                                 m |-> OwnMsg(Objects(s, layer.gnrs)[i])] : i \in 1..Len(Objects(s, layer.gnrs))} :
                                              s \in layer.services},
                               groups |-> {[sid |-> b, svcs |-> Groups(layer, b)] : b \in MCBytes}]))
=============================================================================
