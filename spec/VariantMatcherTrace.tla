------------------------ MODULE VariantMatcherTrace ------------------------
(***************************************************************************)
(* Validates executions of the real VariantMatcher.  Per trace:            *)
(*   init{cands, ecu, cache}  request{svc}*  finish{result}                 *)
(* Monitors (property C14, independent of the order in which the code      *)
(* issues its requests):                                                    *)
(*   first_match        result = FirstMatch(cands, ecu)                     *)
(*   foreign_request    a request that is no identification request of a    *)
(*                      candidate                                           *)
(*   duplicate_request  with caching, the same request twice               *)
(* Shape (DIVERGENCE only): the requests come in the order in which the     *)
(* implementation-shaped machine of VariantMatcher.tla issues them.         *)
(***************************************************************************)
EXTENDS VariantMatcher, Json, IOUtils, TLCExt

VARIABLES l, seen, shapeOk

Log == ndJsonDeserialize(IOEnv.TRACE_FILE)
tvars == <<vars, l, seen, shapeOk>>

Silent == /\ shapeOk
          /\ (SkipEmpty \/ CacheHit \/ Evaluate \/ Finish)
          /\ UNCHANGED <<l, seen, shapeOk>>

Machine == <<phase, cands, ecu, cache, vi, pi, mi, known, reqs, result>>

Consume ==
    /\ ~ENABLED Silent
    /\ l <= Len(Log)
    /\ l' = l + 1
    /\ LET ev == Log[l] IN
       CASE ev.ev = "init" ->
              /\ cands' = ev.cands /\ ecu' = ev.ecu /\ cache' = ev.cache
              /\ phase' = "run" /\ vi' = 1 /\ pi' = 1 /\ mi' = 1 /\ known' = {} /\ reqs' = <<>> /\ result' = -1
              /\ seen' = <<>> /\ shapeOk' = TRUE
         [] ev.ev = "request" ->
              /\ IF ev.svc \notin IdentServices(cands) THEN PrintT(<<"V", ev.tid, l, "foreign_request">>)
                 ELSE IF cache /\ \E j \in 1..Len(seen) : seen[j] = ev.svc THEN PrintT(<<"V", ev.tid, l, "duplicate_request">>)
                 ELSE TRUE
              /\ seen' = Append(seen, ev.svc)
              /\ IF shapeOk /\ phase = "run" /\ vi <= Len(cands) /\ CurParam.svc = ev.svc
                 THEN Yield /\ shapeOk' = TRUE
                 ELSE /\ (IF shapeOk THEN PrintT(<<"D", ev.tid, l, "request_order">>) ELSE TRUE)
                      /\ shapeOk' = FALSE /\ UNCHANGED Machine
         [] ev.ev = "finish" ->
              /\ IF ev.exc # "" THEN PrintT(<<"V", ev.tid, l, "exception">>)
                 ELSE IF ev.result # FirstMatch(cands, ecu) THEN PrintT(<<"V", ev.tid, l, "first_match">>)
                 ELSE IF shapeOk /\ ~(phase = "done" /\ result = ev.result) THEN PrintT(<<"D", ev.tid, l, "finish_state">>)
                 ELSE TRUE
              /\ UNCHANGED <<Machine, seen, shapeOk>>

TraceInit == /\ Init /\ l = 1 /\ seen = <<>> /\ shapeOk = FALSE
TraceNext == Silent \/ Consume
TraceSpec == TraceInit /\ [][TraceNext]_tvars
TraceDone == l = Len(Log) + 1
\* all lines consumed: checked as a postcondition on the deepest state (the search is linear)
TraceAccepted == TLCGet("stats").diameter >= Len(Log) + 1
=============================================================================
