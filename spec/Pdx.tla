-------------------------------- MODULE Pdx --------------------------------
(***************************************************************************)
(* Loading and writing PDX archives (C11).                                 *)
(*                                                                         *)
(* A file is [stem, suffix, payload].  The loader is the member-by-member  *)
(* machine of Database.add_pdx_file / load_directory / load_files: each    *)
(* member is classified by its suffix (ODX document, catalogue index.xml,  *)
(* auxiliary file), documents are appended, auxiliary files are keyed by   *)
(* their base name, the catalogue names the database; Finish = refresh().  *)
(* The same classification applies to all three entry points.              *)
(*                                                                         *)
(* Canon(F) is the DECLARATIVE meaning of a set of files.  TLC checks that *)
(* the machine yields Canon for every order and every entry point          *)
(* (LoaderIsCanon), that what the writer produces for a database means     *)
(* that database (WriteThenLoad) and that writing is a function of the     *)
(* content (a second write of the loaded result gives the same files).     *)
(* Every behaviour (entry, order) is replayed into the real entry points.  *)
(***************************************************************************)
EXTENDS Integers, Sequences, FiniteSets, TLC

CONSTANTS FileSets,     \* the file sets to load (each a set of file records)
          Databases     \* databases to write: [docs: set of [name, kind, content], aux: set of [stem, suffix, payload], name]

VARIABLES phase, files, entry, todo, acc
vars == <<phase, files, entry, todo, acc>>

Entries == {"archive", "directory", "files"}
OdxSuffixes == {".odx-d", ".odx-c", ".odx-cs", ".odx", ".ODX-D", ".odx-e"}    \* "the suffix starts with .odx", any case
IsOdx(f) == f.suffix \in OdxSuffixes
IsIndex(f) == f.stem = "index" /\ f.suffix = ".xml"
IsAux(f) == ~IsOdx(f) /\ ~IsIndex(f)
DefaultName == "odx_database"

(* declarative meaning of a set of files *)
Canon(F) == [docs |-> {f.payload : f \in {g \in F : IsOdx(g)}},
             aux |-> {<<f.stem, f.suffix, f.payload>> : f \in {g \in F : IsAux(g)}},
             name |-> IF \E f \in F : IsIndex(f) THEN (CHOOSE f \in F : IsIndex(f)).payload ELSE DefaultName]

(* the loader *)
EmptyAcc == [docs |-> <<>>, aux |-> {}, name |-> DefaultName]
Init == phase = "idle" /\ files = {} /\ entry = "" /\ todo = <<>> /\ acc = EmptyAcc
RECURSIVE Perms(_)
Perms(S) == IF S = {} THEN {<<>>} ELSE UNION {{<<x>> \o p : p \in Perms(S \ {x})} : x \in S}
Start == /\ phase = "idle"
         /\ \E F \in FileSets, e \in Entries : \E order \in Perms(F) :
              files' = F /\ entry' = e /\ todo' = order
         /\ phase' = "loading" /\ acc' = EmptyAcc
Member == /\ phase = "loading" /\ todo # <<>>
          /\ LET f == Head(todo) IN
             acc' = IF IsOdx(f) THEN [acc EXCEPT !.docs = Append(@, f.payload)]
                    ELSE IF IsIndex(f) THEN [acc EXCEPT !.name = f.payload]
                    ELSE [acc EXCEPT !.aux = @ \cup {<<f.stem, f.suffix, f.payload>>}]
          /\ todo' = Tail(todo) /\ UNCHANGED <<phase, files, entry>>
Finish == /\ phase = "loading" /\ todo = <<>>
          /\ phase' = "done" /\ UNCHANGED <<files, entry, todo, acc>>
Next == Start \/ Member \/ Finish
Spec == Init /\ [][Next]_vars

Result == [docs |-> {acc.docs[i] : i \in DOMAIN acc.docs}, aux |-> acc.aux, name |-> acc.name]
LoaderIsCanon == phase = "done" => Result = Canon(files)
NoDocTwice == phase = "done" => Len(acc.docs) = Cardinality(Result.docs)

(* the writer: one member per document, named after it; auxiliary files by base name; the catalogue *)
SuffixOf(kind) == CASE kind = "d" -> ".odx-d" [] kind = "cs" -> ".odx-cs" [] OTHER -> ".odx-c"
WriteDb(db) == {[stem |-> d.name, suffix |-> SuffixOf(d.kind), payload |-> d] : d \in db.docs}
               \cup {[stem |-> a[1], suffix |-> a[2], payload |-> a[3]] : a \in db.aux}
               \cup {[stem |-> "index", suffix |-> ".xml", payload |-> db.name]}
WriteThenLoad == \A db \in Databases : Canon(WriteDb(db)) = db
WriteIsStable == \A db \in Databases : WriteDb(Canon(WriteDb(db))) = WriteDb(db)
=============================================================================
