---------------------------- MODULE IsoTpCore ----------------------------
(***************************************************************************)
(* The variable-free part of the ISO-TP specification: frame anatomy, the  *)
(* implementation-shaped receiver step RxStep, and the ghost monitor        *)
(* (GhostStep / MayReport / MustReport / Judge) that states what properties *)
(* C12 and C13 allow and demand of ANY reassembler.  Used by IsoTp.tla      *)
(* (the model) and by IsoTpTrace.tla (validation of real executions).       *)
(***************************************************************************)
EXTENDS Integers, Sequences, FiniteSets, SequencesExt, TLC

Min2(a, b) == IF a < b THEN a ELSE b

---------------------------------------------------------------------------
(* Frame anatomy                                                           *)
Kind(f) == IF f = <<>> THEN "empty"
           ELSE CASE f[1] \div 16 = 0 -> "SF" [] f[1] \div 16 = 1 -> "FF"
                  [] f[1] \div 16 = 2 -> "CF" [] f[1] \div 16 = 3 -> "FC" [] OTHER -> "bad"
Low(f) == f[1] % 16
\* single frame: classic form 0L, CAN-FD escape form 00 LL (only in frames longer than 8 bytes)
SfEscape(f) == Low(f) = 0 /\ Len(f) > 8
SfLen(f) == IF SfEscape(f) THEN f[2] ELSE Low(f)
SfPayload(f) == IF SfEscape(f) THEN SubSeq(f, 3, Min2(Len(f), 2 + f[2]))
                ELSE SubSeq(f, 2, Min2(Len(f), 1 + Low(f)))
SfWellFormed(f) == IF SfEscape(f) THEN f[2] >= 8 /\ Len(f) >= 2 + f[2]
                   ELSE Low(f) >= 1 /\ Low(f) <= 7 /\ Len(f) >= 1 + Low(f)
FfLen(f) == Low(f) * 256 + f[2]
Take(s, n) == SubSeq(s, 1, Min2(n, Len(s)))

---------------------------------------------------------------------------
(* Receiver, shaped like IsoTpStateMachine.decode_rx_frame                  *)
(* has = a buffer exists (first frame seen, telegram not yet complete)     *)
RxInit == [has |-> FALSE, len |-> 0, buf |-> <<>>, sn |-> 0]

\* result: [r |-> new receiver state, out |-> telegrams reported, fc |-> flow controls sent if active]
RxStep(r, f) ==
    LET k == Kind(f) IN
    CASE k = "SF" -> [r |-> r, out |-> <<SfPayload(f)>>, fc |-> 1]   \* (sic) the active decoder answers SFs too
      [] k = "FF" -> IF Len(f) < 2 THEN [r |-> r, out |-> <<>>, fc |-> 0]
                     ELSE [r |-> [has |-> TRUE, len |-> FfLen(f), buf |-> SubSeq(f, 3, Len(f)), sn |-> 0],
                           out |-> <<>>, fc |-> 1]
      [] k = "CF" -> IF ~r.has THEN [r |-> r, out |-> <<>>, fc |-> 0]
                     ELSE IF Low(f) = (r.sn + 1) % 16
                          THEN LET b == r.buf \o Tail(f) IN
                               IF Len(b) >= r.len
                               THEN [r |-> [has |-> FALSE, len |-> r.len, buf |-> <<>>, sn |-> Low(f)],
                                     out |-> <<Take(b, r.len)>>, fc |-> 0]
                               ELSE [r |-> [r EXCEPT !.buf = b, !.sn = Low(f)], out |-> <<>>, fc |-> 0]
                          ELSE [r |-> r, out |-> <<>>, fc |-> 0]          \* sequence error: frame ignored
      [] OTHER -> [r |-> r, out |-> <<>>, fc |-> 0]                       \* FC, unknown type, empty frame

---------------------------------------------------------------------------
(* Ghost monitor: what ANY correct reassembler may and must report          *)
(*   active   a first frame has been seen and no telegram reported for it   *)
(*   len      its announced length;  acc = its data + in-sequence CF data   *)
(*   exp      next expected sequence number                                 *)
(*   clean    nothing but its own in-sequence CFs (and flow control)        *)
(*            arrived on this ID since that first frame                     *)
(*   ffn      number of data bytes in the first frame itself                *)
GhostInit == [active |-> FALSE, reported |-> FALSE, len |-> 0, acc |-> <<>>, exp |-> 1, clean |-> FALSE, ffn |-> 0]

CfInSeq(g, f) == Kind(f) = "CF" /\ g.active /\ Low(f) = g.exp
GhostStep(g, f) ==
    LET k == Kind(f) IN
    CASE k = "FF" /\ Len(f) >= 2 ->
             [active |-> TRUE, reported |-> FALSE, len |-> FfLen(f), acc |-> SubSeq(f, 3, Len(f)), exp |-> 1,
              clean |-> TRUE, ffn |-> Len(f) - 2]
      [] k = "CF" -> IF CfInSeq(g, f) THEN [g EXCEPT !.acc = g.acc \o Tail(f), !.exp = (g.exp + 1) % 16]
                     ELSE [g EXCEPT !.clean = FALSE]
      [] k = "FC" -> g
      [] OTHER -> [g EXCEPT !.clean = FALSE]

\* the telegram that may be reported for frame f (<<>> = none may be)
MayReport(g, f) ==
    CASE Kind(f) = "SF" -> <<SfPayload(f)>>
      [] CfInSeq(g, f) /\ ~g.reported /\ Len(g.acc) + Len(f) - 1 >= g.len -> <<Take(g.acc \o Tail(f), g.len)>>
      [] OTHER -> <<>>
\* ... and whether it must be (well-formed single frame; last frame of an undisturbed, well-formed transfer)
MustReport(g, f) ==
    \/ Kind(f) = "SF" /\ SfWellFormed(f)
    \/ /\ CfInSeq(g, f) /\ ~g.reported /\ g.clean
       /\ g.ffn < g.len /\ Len(g.acc) < g.len /\ Len(g.acc) + Len(f) - 1 >= g.len

\* verdict for one processed frame; o = sequence of telegrams reported for it
Judge(g, f, o) ==
    IF Len(o) > 1 THEN "multiple"
    ELSE IF o = <<>> THEN (IF MustReport(g, f) THEN "missing" ELSE "ok")
    ELSE IF MayReport(g, f) = <<>> THEN
            (IF Kind(f) = "CF" /\ g.reported /\ Low(f) = g.exp THEN "duplicate" ELSE "fabricated")
    ELSE IF o # MayReport(g, f) THEN "wrong_payload"
    ELSE "ok"
GhostAfter(g, f, o) == LET g2 == GhostStep(g, f) IN
                       IF o # <<>> /\ Kind(f) = "CF" THEN [g2 EXCEPT !.reported = TRUE] ELSE g2

=============================================================================
