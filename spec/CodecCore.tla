----------------------------- MODULE CodecCore -----------------------------
(***************************************************************************)
(* The reference interpreter of the ODX wire format: descriptions as data, *)
(* an encoder and a decoder that walk a description with a cursor machine  *)
(* (PDU bits, used-bit mask, cursor, origin, end-of-PDU flag, length and   *)
(* table keys, key positions, overlap flag), and the static operators      *)
(* (static length, constant prefix, required / free parameters).           *)
(* Variable-free; used by Codec.tla (the model) and CodecTrace.tla.        *)
(*                                                                         *)
(* Values (tagged, because TLC equality is typed):                         *)
(*   [t|->"int",v|->k]  [t|->"tok",name|->name]  [t|->"wide",b|->bits]        *)
(*   [t|->"bytes",v|->Seq(0..255)]  [t|->"text",v|->Seq(code point)]       *)
(*   [t|->"float",v|->Seq(0..255)] (IEEE pattern, big endian)              *)
(*   [t|->"dict",v|-><< <<name,val>>,... >>]  [t|->"list",v|-><<val,...>>] *)
(*   [t|->"pair",a|->case/row name,b|->val]   [t|->"str",s|->name]         *)
(*   [t|->"missing"]                                                       *)
(*                                                                         *)
(* Conventions of the implementation that the reference adopts (each is a  *)
(* documented choice of odxtools, see DESIGN.md appendix E/F):             *)
(*  - low-high byte order reverses the whole byte window of a value;       *)
(*  - RESERVED and NRC-CONST claim no bits when encoding;                  *)
(*  - BYTE-SIZE / ITEM-BYTE-SIZE padding is claimed;                       *)
(*  - the end marker of a dynamic end-marker field is written and claimed  *)
(*    but not consumed (the next parameter describes it);                  *)
(*  - length and table keys are reserved as unclaimed zero bits when they  *)
(*    are met and filled in after the last parameter of their list.        *)
(***************************************************************************)
EXTENDS Bits, FiniteSets, TLC

Missing == [t |-> "missing"]
IsMissing(v) == v.t = "missing"
SameVal(a, b) == a.t = b.t /\ a = b
NoDop == [k |-> "none"]
NoDct == [k |-> "none"]

RECURSIVE PairsGet(_, _)
PairsGet(ps, name) == IF ps = <<>> THEN Missing
                      ELSE IF Head(ps)[1] = name THEN Head(ps)[2] ELSE PairsGet(Tail(ps), name)
PairsHas(ps, name) == \E i \in 1..Len(ps) : ps[i][1] = name
PairsPut(ps, name, val) == IF PairsHas(ps, name)
                           THEN [i \in 1..Len(ps) |-> IF ps[i][1] = name THEN <<name, val>> ELSE ps[i]]
                           ELSE Append(ps, <<name, val>>)
DictGet(d, name) == IF d.t = "dict" THEN PairsGet(d.v, name) ELSE Missing

---------------------------------------------------------------------------
(* cursor machine *)
\* rqm: the triggering request (bytes), for MATCHING-REQUEST-PARAM
EncInit(rqm) == [pdu |-> <<>>, used |-> <<>>, cur |-> 0, org |-> 0, eop |-> TRUE, lk |-> <<>>, tk |-> <<>>, kp |-> <<>>, jr |-> <<>>,
                 ovl |-> FALSE, err |-> FALSE, rqm |-> rqm]
Err(st) == [st EXCEPT !.err = TRUE]
Grow(st, nbytes) == IF Len(st.pdu) >= 8 * nbytes THEN st
                    ELSE [st EXCEPT !.pdu = st.pdu \o Zeros(8 * nbytes - Len(st.pdu)),
                                    !.used = st.used \o Zeros(8 * nbytes - Len(st.used))]
\* write the bits selected by mask at the cursor (whole bytes), claim them, advance
Emplace(st, bits, mask) ==
    LET w == Len(bits) \div 8
        s1 == Grow(st, st.cur + w)
        off == 8 * st.cur
    IN [s1 EXCEPT !.pdu = [j \in 1..Len(s1.pdu) |-> IF j > off /\ j <= off + Len(bits) /\ mask[j - off] = 1
                                                   THEN bits[j - off] ELSE s1.pdu[j]],
                  !.used = [j \in 1..Len(s1.used) |-> IF j > off /\ j <= off + Len(bits) /\ mask[j - off] = 1
                                                    THEN 1 ELSE s1.used[j]],
                  !.ovl = s1.ovl \/ \E j \in 1..Len(bits) : mask[j] = 1 /\ s1.used[off + j] = 1,
                  !.cur = st.cur + w]
EmplaceBytes(st, bs) == Emplace(st, BytesBits(bs), Ones(8 * Len(bs)))
\* the byte window of an n-bit value at bit position bit; swap: low-high byte order
Window(bits, bit, swap) ==
    LET n == Len(bits)
        pad == (8 - ((n + bit) % 8)) % 8
        w == Zeros(pad) \o bits \o Zeros(bit)
    IN IF swap THEN RevBytes(w) ELSE w
WindowMask(n, bit, swap) == Window(Ones(n), bit, swap)
EmplaceValue(st, bits, bit, swap) == Emplace(st, Window(bits, bit, swap), WindowMask(Len(bits), bit, swap))
\* BIT-MASK (not condensed): only the bits of the mask are written and claimed; a value with other bits set is not representable
HasMask(dct) == "mask" \in DOMAIN dct
AndBits(a, b) == [i \in 1..Len(a) |-> IF a[i] = 1 /\ b[i] = 1 THEN 1 ELSE 0]
MaskBits(dct) == UBits(dct.mask, dct.bits)
InsideMask(bits, m) == \A i \in 1..Len(bits) : bits[i] = 1 => m[i] = 1
EmplaceMasked(st, bits, m, bit, swap) == Emplace(st, Window(bits, bit, swap), Window(m, bit, swap))
\* advance over bits that are described but not written (RESERVED, NRC-CONST)
Skip(st, bit, n) == LET c == st.cur + ((bit + n + 7) \div 8) IN [Grow(st, c) EXCEPT !.cur = c]

IsNumeric(base) == base \in {"uint", "int", "f32", "f64"}
TextEnc(dct) == CASE dct.base = "ascii" -> "latin1" [] dct.base = "utf8" -> "utf8"
                  [] OTHER -> IF dct.hilo THEN "ucs2be" ELSE "ucs2le"
\* raw bytes of a byte field or text value for a diag coded type; <<-1>> inside = not encodable
RawBytes(dct, v) == IF v.t = "bytes" /\ dct.base = "bytes" THEN v.v
                    ELSE IF v.t = "text" /\ dct.base \in {"ascii", "utf8", "ucs2"} THEN TextBytes(v.v, TextEnc(dct))
                    ELSE <<-1>>
BadBytes(bs) == \E i \in 1..Len(bs) : bs[i] < 0
TermSeq(dct) == LET b == IF dct.term = "ZERO" THEN 0 ELSE 255 IN IF dct.base = "ucs2" THEN <<b, b>> ELSE <<b>>

(* one atomic value through a diag coded type *)
EncAtomic(dct, v, st, bit) ==
    IF st.err THEN st ELSE
    CASE dct.k = "std" ->
           IF dct.base \in {"uint", "int"} THEN
               (IF v.t \notin {"int", "tok"} THEN Err(st)
                ELSE LET r == IntBits(v, dct.base, dct.enc, dct.bits) IN
                     IF ~r.ok THEN Err(st)
                     ELSE IF ~HasMask(dct) THEN EmplaceValue(st, r.bits, bit, ~dct.hilo)
                     ELSE IF ~InsideMask(r.bits, MaskBits(dct)) THEN Err(st)
                     ELSE EmplaceMasked(st, r.bits, MaskBits(dct), bit, ~dct.hilo))
           ELSE IF dct.base \in {"f32", "f64"} THEN
               (IF v.t # "float" \/ 8 * Len(v.v) # dct.bits THEN Err(st)
                ELSE EmplaceValue(st, BytesBits(v.v), bit, ~dct.hilo))
           ELSE LET raw == RawBytes(dct, v) IN
                IF BadBytes(raw) \/ 8 * Len(raw) # dct.bits THEN Err(st)
                ELSE IF ~HasMask(dct) THEN EmplaceValue(st, BytesBits(raw), bit, FALSE)
                ELSE IF ~InsideMask(BytesBits(raw), MaskBits(dct)) THEN Err(st)
                ELSE EmplaceMasked(st, BytesBits(raw), MaskBits(dct), bit, FALSE)
      [] dct.k = "minmax" ->
           LET raw == RawBytes(dct, v) IN
           IF BadBytes(raw) \/ bit # 0 \/ Len(raw) < dct.min \/ (dct.max >= 0 /\ Len(raw) > dct.max) THEN Err(st)
           ELSE IF dct.term = "END-OF-PDU" /\ ~st.eop THEN Err(st)
           ELSE LET s1 == EmplaceBytes(st, raw) IN
                IF st.eop \/ Len(raw) = dct.max \/ dct.term = "END-OF-PDU" THEN s1 ELSE EmplaceBytes(s1, TermSeq(dct))
      [] dct.k = "leading" ->
           LET raw == RawBytes(dct, v) IN
           IF BadBytes(raw) \/ ~Fits(Len(raw), dct.bits) THEN Err(st)
           ELSE EmplaceBytes(EmplaceValue(st, UBits(Len(raw), dct.bits), bit, ~dct.hilo), raw)
      [] dct.k = "paramlen" ->
           \* the bit length comes from the length key, or defines it
           LET raw == IF IsNumeric(dct.base) THEN <<>> ELSE RawBytes(dct, v)
               \* without an explicit key value, integers take the fewest whole bytes that hold them
               abs == IF v.t = "int" THEN (IF v.v < 0 THEN -v.v ELSE v.v) ELSE 0
               own == IF dct.base \in {"uint", "int"}
                      THEN (IF v.t = "int" THEN 8 * ((BitLength(abs) + (IF dct.base = "int" THEN 1 ELSE 0) + 7) \div 8) ELSE dct.nbits)
                      ELSE 8 * Len(raw)
               n == IF PairsHas(st.lk, dct.key) THEN PairsGet(st.lk, dct.key) ELSE own
               s1 == [st EXCEPT !.lk = PairsPut(st.lk, dct.key, n)]
           IN IF dct.base \in {"uint", "int"} THEN
                  (IF v.t \notin {"int", "tok"} THEN Err(st)
                   ELSE LET r == IntBits(v, dct.base, dct.enc, n) IN
                        IF r.ok THEN EmplaceValue(s1, r.bits, bit, ~dct.hilo) ELSE Err(st))
              ELSE IF BadBytes(raw) \/ 8 * Len(raw) # n THEN Err(st)
              ELSE EmplaceValue(s1, BytesBits(raw), bit, FALSE)
      [] OTHER -> Err(st)

Str(x) == [t |-> "str", s |-> x]
\* tables: [k |-> "table", kdct, rows |-> << [n, key, st] >>]; a TABLE-STRUCT parameter names its TABLE-KEY parameter in p.sys
RowsNamed(tab, nm) == {i \in 1..Len(tab.rows) : tab.rows[i].n = nm}
RowsKeyed(tab, key) == {i \in 1..Len(tab.rows) : tab.rows[i].key = key}

---------------------------------------------------------------------------
(* parameters and data objects: encoder *)
StaticKey(p) == p.k = "TABLE-KEY" /\ p.cv.t = "str"
IsKey(p) == p.k = "LENGTH-KEY" \/ (p.k = "TABLE-KEY" /\ ~StaticKey(p))
ParamNames(ps) == {ps[i].n : i \in 1..Len(ps)}
DictNames(d) == {d.v[i][1] : i \in 1..Len(d.v)}
DopBits(d) == IF d.k = "simple" /\ d.dct.k = "std" THEN d.dct.bits ELSE -1

RECURSIVE EncDop(_, _, _, _), EncParams(_, _, _, _, _), EncItems(_, _, _, _, _), PatchKeys(_, _, _), EncCompositeX(_, _, _, _, _)

EncParam(p, v, st, last, outerEop) ==
    IF st.err THEN st ELSE
    LET s0 == [st EXCEPT !.cur = IF p.bp >= 0 THEN st.org + p.bp ELSE st.cur,
                         !.eop = IF last THEN outerEop ELSE FALSE]
        bit == IF p.bi >= 0 THEN p.bi ELSE 0
    IN CASE p.k \in {"VALUE", "SYSTEM"} ->
              LET val == IF IsMissing(v) THEN p.dv ELSE v IN
              IF IsMissing(val) THEN Err(s0) ELSE EncDop(p.dop, val, s0, bit)
         [] p.k = "CODED-CONST" ->
              IF ~IsMissing(v) /\ ~SameVal(v, p.cv) THEN Err(s0) ELSE EncAtomic(p.dct, p.cv, s0, bit)
         [] p.k = "PHYS-CONST" ->
              IF ~IsMissing(v) /\ ~SameVal(v, p.cv) THEN Err(s0) ELSE EncDop(p.dop, p.cv, s0, bit)
         [] p.k = "RESERVED" -> Skip(s0, bit, p.bits)
         [] p.k = "NRC-CONST" -> IF ~IsMissing(v) THEN Err(s0) ELSE Skip(s0, bit, p.dct.bits)
         [] p.k = "MATCHING-REQUEST-PARAM" ->
              IF Len(s0.rqm) < p.rq + p.len THEN Err(s0)
              ELSE EmplaceBytes(s0, SubSeq(s0.rqm, p.rq + 1, p.rq + p.len))
         [] p.k = "LENGTH-KEY" ->
              \* placeholder: zero bits, not claimed; an explicit value is remembered
              LET s1 == IF IsMissing(v) THEN s0
                        ELSE IF v.t # "int" THEN Err(s0)
                        ELSE [s0 EXCEPT !.lk = PairsPut(s0.lk, p.n, v.v)]
                  w == (bit + DopBits(p.dop) + 7) \div 8
              IN [Emplace([s1 EXCEPT !.kp = PairsPut(s1.kp, p.n, s0.cur)], Zeros(8 * w), Zeros(8 * w)) EXCEPT !.err = s1.err]
         [] p.k = "TABLE-KEY" /\ StaticKey(p) ->
              \* the row is selected by the description (TABLE-ROW-REF): the key has no representation in the PDU; an
              \* explicit value can only name that row
              IF ~IsMissing(v) /\ (v.t # "str" \/ v.s # p.cv.s) THEN Err(s0)
              ELSE [s0 EXCEPT !.tk = PairsPut(s0.tk, p.n, p.cv.s)]
         [] p.k = "TABLE-KEY" ->
              \* placeholder like a length key; an explicit value names the row and must agree with what is already chosen
              LET s1 == IF IsMissing(v) THEN s0
                        ELSE IF v.t # "str" \/ (PairsHas(s0.tk, p.n) /\ PairsGet(s0.tk, p.n) # v.s) THEN Err(s0)
                        ELSE [s0 EXCEPT !.tk = PairsPut(s0.tk, p.n, v.s)]
                  w == (bit + p.dop.kdct.bits + 7) \div 8
              IN [Emplace([s1 EXCEPT !.kp = PairsPut(s1.kp, p.n, s0.cur)], Zeros(8 * w), Zeros(8 * w)) EXCEPT !.err = s1.err]
         [] p.k = "TABLE-STRUCT" ->
              \* (row name, content): selects the row for its key, then the row's structure / data object encodes the content
              IF IsMissing(v) \/ v.t # "pair" THEN Err(s0)
              ELSE IF PairsHas(s0.tk, p.sys) /\ PairsGet(s0.tk, p.sys) # v.a THEN Err(s0)
              ELSE LET hit == RowsNamed(p.dop, v.a) IN
                   IF hit = {} THEN Err(s0)
                   ELSE LET row == p.dop.rows[CHOOSE i \in hit : TRUE] IN
                        IF row.st.k = "none" THEN Err(s0)
                        ELSE EncDop(row.st, v.b, [s0 EXCEPT !.tk = PairsPut(s0.tk, p.sys, v.a)], bit)
         [] OTHER -> Err(s0)

\* the journal: the value each parameter met so far was encoded with (supplied, default or constant); an environment data
\* description looks up the trouble code of the parameter it refers to there
Effective(p, v) == IF ~IsMissing(v) THEN v ELSE IF p.k \in {"VALUE", "SYSTEM"} THEN p.dv ELSE IF p.k \in {"CODED-CONST", "PHYS-CONST"} THEN p.cv ELSE Missing
EncParams(ps, i, d, st, outerEop) ==
    IF i > Len(ps) \/ st.err THEN st
    ELSE LET s1 == EncParam(ps[i], DictGet(d, ps[i].n), st, i = Len(ps), outerEop) IN
         EncParams(ps, i + 1, d, [s1 EXCEPT !.jr = PairsPut(s1.jr, ps[i].n, Effective(ps[i], DictGet(d, ps[i].n)))], outerEop)

\* after the last parameter: fill in the keys, in list order
PatchKeys(ps, i, st) ==
    IF i > Len(ps) \/ st.err THEN st
    ELSE IF ps[i].k = "LENGTH-KEY" THEN
        LET p == ps[i]
            s0 == [st EXCEPT !.cur = PairsGet(st.kp, p.n)]
        IN IF ~PairsHas(st.lk, p.n) THEN Err(st)
           ELSE PatchKeys(ps, i + 1, EncDop(p.dop, IntV(PairsGet(st.lk, p.n)), s0, IF p.bi >= 0 THEN p.bi ELSE 0))
    ELSE IF ps[i].k = "TABLE-KEY" /\ ~StaticKey(ps[i]) THEN
        LET p == ps[i]
            s0 == [st EXCEPT !.cur = PairsGet(st.kp, p.n)]
            hit == IF PairsHas(st.tk, p.n) THEN RowsNamed(p.dop, PairsGet(st.tk, p.n)) ELSE {}
        IN IF hit = {} THEN Err(st)
           ELSE PatchKeys(ps, i + 1, EncAtomic(p.dop.kdct, IntV(p.dop.rows[CHOOSE i2 \in hit : TRUE].key), s0, IF p.bi >= 0 THEN p.bi ELSE 0))
    ELSE PatchKeys(ps, i + 1, st)

\* a parameter list (request, response, structure): positions are relative to where it starts
\* lax: values for parameters the list does not know are ignored (environment data: one dictionary serves several lists)
EncCompositeX(ps, d, st, bit, lax) ==
    IF st.err THEN st
    ELSE IF d.t # "dict" \/ bit # 0 \/ (~lax /\ ~(DictNames(d) \subseteq ParamNames(ps))) THEN Err(st)
    ELSE LET s1 == EncParams(ps, 1, d, [st EXCEPT !.org = st.cur], st.eop)
             s2 == PatchKeys(ps, 1, [s1 EXCEPT !.eop = FALSE])
         IN [s2 EXCEPT !.org = st.org, !.eop = st.eop,
                       \* the next object follows the last parameter of the list, not the last key that was filled in
                       !.cur = IF \E k \in 1..Len(ps) : IsKey(ps[k]) THEN s1.cur ELSE s2.cur]
EncComposite(ps, d, st, bit) == EncCompositeX(ps, d, st, bit, FALSE)

EncItems(sd, items, i, st, outerEop) ==
    IF i > Len(items) \/ st.err THEN st
    ELSE EncItems(sd, items, i + 1, EncDop(sd, items[i], [st EXCEPT !.eop = IF i = Len(items) THEN outerEop ELSE FALSE], 0), outerEop)

EncDop(d, v, st, bit) ==
    IF st.err THEN st ELSE
    CASE d.k = "simple" -> EncAtomic(d.dct, v, st, bit)
      \* environment data: the parameters common to all trouble codes, then those of the code of the referenced parameter
      [] d.k = "envdesc" ->
           LET code == PairsGet(st.jr, d.ref) IN
           IF v.t # "dict" \/ bit # 0 \/ code.t # "int" THEN Err(st)
           ELSE LET s1 == IF d.hasall THEN EncCompositeX(d.all, v, st, 0, TRUE) ELSE st
                    hit == {i \in 1..Len(d.per) : code.v \in d.per[i].codes}
                IN IF hit = {} \/ s1.err THEN s1
                   ELSE EncCompositeX(d.per[CHOOSE i \in hit : \A j \in hit : i <= j].ps, v, s1, 0, TRUE)
      \* a DTC object is coded like a simple one; its values are the trouble codes the description defines
      [] d.k = "dtc" -> IF v.t = "int" /\ \E i \in 1..Len(d.codes) : d.codes[i] = v.v THEN EncAtomic(d.dct, v, st, bit) ELSE Err(st)
      [] d.k = "struct" ->
           LET s1 == EncComposite(d.ps, v, st, bit) IN
           IF s1.err \/ d.bs < 0 THEN s1
           ELSE IF s1.cur - st.cur > d.bs THEN s1                      \* content longer than BYTE-SIZE: nothing is added
           ELSE EmplaceBytes(s1, Zeros(d.bs - (s1.cur - st.cur)))       \* padding, claimed
      [] d.k = "sfield" ->
           IF v.t # "list" \/ Len(v.v) # d.cnt \/ bit # 0 THEN Err(st)
           ELSE LET RECURSIVE Items(_, _)
                    Items(i, s) == IF i > d.cnt \/ s.err THEN s
                                   ELSE LET s1 == EncDop(d.st, v.v[i], [s EXCEPT !.eop = IF i = d.cnt THEN st.eop ELSE FALSE], 0) IN
                                        IF s1.err THEN s1
                                        ELSE IF s1.cur - s.cur > d.isz THEN Err(s1)
                                        ELSE Items(i + 1, EmplaceBytes(s1, Zeros(d.isz - (s1.cur - s.cur))))
                IN [Items(1, st) EXCEPT !.eop = st.eop]
      [] d.k = "dlfield" ->
           IF v.t # "list" \/ bit # 0 THEN Err(st)
           ELSE LET s0 == [st EXCEPT !.org = st.cur, !.cur = st.cur + d.cbp]
                    s1 == EncAtomic(d.cdct, IntV(Len(v.v)), s0, d.cbit)
                IN IF s1.err \/ s1.cur - s0.org > d.off THEN Err(s1)
                   ELSE LET s2 == EncItems(d.st, v.v, 1, [s1 EXCEPT !.cur = s0.org + d.off], st.eop)
                            s3 == IF v.v = <<>> THEN Grow(s2, s2.cur) ELSE s2
                        IN [s3 EXCEPT !.org = st.org, !.eop = st.eop]
      [] d.k = "eopfield" ->
           IF v.t # "list" \/ bit # 0 \/ ~st.eop THEN Err(st)
           ELSE [EncItems(d.st, v.v, 1, st, st.eop) EXCEPT !.eop = st.eop]
      [] d.k = "demfield" ->
           IF v.t # "list" \/ bit # 0 THEN Err(st)
           ELSE LET s1 == [EncItems(d.st, v.v, 1, st, st.eop) EXCEPT !.eop = st.eop] IN
                IF s1.err \/ st.eop THEN s1
                ELSE [EncAtomic(d.tdct, d.tv, s1, 0) EXCEPT !.cur = s1.cur]   \* end marker: written, not consumed
      [] d.k = "mux" ->
           \* v = (case name, content).  The switch key is the lower limit of the chosen case (0 for the default case);
           \* the content, if the case has a structure, sits at the multiplexer's BYTE-POSITION.
           IF v.t # "pair" \/ bit # 0 THEN Err(st)
           ELSE LET idx == {i \in 1..Len(d.cases) : d.cases[i].n = v.a} IN
                IF idx = {} /\ ~(d.hasdflt /\ d.dflt.n = v.a) THEN Err(st)
                ELSE LET c == IF idx # {} THEN d.cases[CHOOSE i \in idx : TRUE] ELSE d.dflt
                         s0 == [st EXCEPT !.org = st.cur, !.cur = st.cur + d.kbp]
                         s1 == EncAtomic(d.kdct, IntV(IF idx # {} THEN c.lo ELSE 0), s0, d.kbit)
                     IN IF s1.err THEN s1
                        ELSE IF c.st.k = "none" THEN [s1 EXCEPT !.org = st.org]
                        ELSE [EncDop(c.st, v.b, [s1 EXCEPT !.cur = s0.org + d.bp], 0) EXCEPT !.org = st.org, !.eop = st.eop]
      [] OTHER -> Err(st)

\* a whole request / response
EncodeMsg(ps, vals, rqm) == EncComposite(ps, vals, EncInit(rqm), 0)
PduBytes(st) == BitsBytes(st.pdu)

---------------------------------------------------------------------------
(* decoder *)
DecInit(pdu) == [pdu |-> pdu, cur |-> 0, org |-> 0, lk |-> <<>>, tk |-> <<>>, jr |-> <<>>, err |-> FALSE, mism |-> FALSE, hi |-> 0]
DErr(ds) == [ds EXCEPT !.err = TRUE]
R(ds, v) == [ds |-> ds, v |-> v]
NBytes(ds) == Len(ds.pdu) \div 8

\* n bits at bit position bit, whole byte window consumed
Extract(ds, n, bit, swap) ==
    LET w == (n + bit + 7) \div 8 IN
    IF ds.err \/ ds.cur + w > NBytes(ds) THEN [ds |-> DErr(ds), bits |-> <<>>]
    ELSE LET win0 == SubSeq(ds.pdu, 8 * ds.cur + 1, 8 * (ds.cur + w))
             win == IF swap THEN RevBytes(win0) ELSE win0
             pad == 8 * w - n - bit
         IN [ds |-> [ds EXCEPT !.cur = ds.cur + w, !.hi = IF ds.cur + w > ds.hi THEN ds.cur + w ELSE ds.hi],
             bits |-> SubSeq(win, pad + 1, pad + n)]

BytesVal(dct, bs) ==
    IF dct.base = "bytes" THEN [ok |-> TRUE, v |-> [t |-> "bytes", v |-> bs]]
    ELSE LET r == BytesText(bs, TextEnc(dct)) IN [ok |-> r.ok, v |-> [t |-> "text", v |-> r.v]]

\* position of the first aligned terminator in bytes [from, to), or -1
FindTerm(bs, from, to, term, start) ==
    LET cands == {k \in from..(to - Len(term)) : (k - start) % Len(term) = 0 /\ SubSeq(bs, k + 1, k + Len(term)) = term} IN
    IF cands = {} THEN -1 ELSE CHOOSE k \in cands : \A j \in cands : k <= j

\* the value of zero bits
EmptyOf(dct) == CASE dct.base \in {"uint", "int"} -> IntV(0)
                  [] dct.base = "bytes" -> [t |-> "bytes", v |-> <<>>]
                  [] dct.base \in {"ascii", "utf8", "ucs2"} -> [t |-> "text", v |-> <<>>]
                  [] OTHER -> Missing
DecAtomic(dct, ds, bit) ==
    IF ds.err THEN R(ds, Missing) ELSE
    CASE dct.k = "std" ->
           IF dct.bits = 0 THEN R(ds, EmptyOf(dct))
           ELSE LET e == Extract(ds, dct.bits, bit, IsNumeric(dct.base) /\ ~dct.hilo) IN
                IF e.ds.err THEN R(e.ds, Missing)
                ELSE LET vb == IF HasMask(dct) THEN AndBits(e.bits, MaskBits(dct)) ELSE e.bits IN    \* bits outside the mask are ignored
                IF dct.base \in {"uint", "int"} THEN R(e.ds, BitsInt(vb, dct.base, dct.enc))
                ELSE IF dct.base \in {"f32", "f64"} THEN R(e.ds, [t |-> "float", v |-> BitsBytes(vb)])
                ELSE LET bv == BytesVal(dct, BitsBytes(vb)) IN IF bv.ok THEN R(e.ds, bv.v) ELSE R(DErr(e.ds), Missing)
      [] dct.k = "minmax" ->
           LET bs == BitsBytes(ds.pdu)
               n == Len(bs)
               hi == IF dct.max >= 0 /\ ds.cur + dct.max < n THEN ds.cur + dct.max ELSE n IN
           IF ds.cur + dct.min > n THEN R(DErr(ds), Missing)
           ELSE LET tp == IF dct.term = "END-OF-PDU" THEN -1 ELSE FindTerm(bs, ds.cur + dct.min, hi, TermSeq(dct), ds.cur)
                    len == IF tp < 0 THEN hi - ds.cur ELSE tp - ds.cur
                    raw == SubSeq(bs, ds.cur + 1, ds.cur + len)
                    after == ds.cur + len
                    \* the terminator is consumed unless the value ended at MAX-LENGTH or at the end of the PDU
                    cur2 == IF dct.term # "END-OF-PDU" /\ after # n /\ len # dct.max THEN after + Len(TermSeq(dct)) ELSE after
                    bv == BytesVal(dct, raw)
                IN IF bv.ok THEN R([ds EXCEPT !.cur = cur2, !.hi = IF cur2 > ds.hi THEN cur2 ELSE ds.hi], bv.v)
                   ELSE R(DErr(ds), Missing)
      [] dct.k = "leading" ->
           LET e == Extract(ds, dct.bits, bit, ~dct.hilo) IN
           IF e.ds.err \/ ~Small(e.bits) THEN R(DErr(e.ds), Missing)
           ELSE LET len == Low(e.bits)
                    e2 == Extract(e.ds, 8 * len, 0, FALSE) IN
                IF e2.ds.err THEN R(e2.ds, Missing)
                ELSE LET bv == BytesVal(dct, BitsBytes(e2.bits)) IN IF bv.ok THEN R(e2.ds, bv.v) ELSE R(DErr(e2.ds), Missing)
      [] dct.k = "paramlen" ->
           IF ~PairsHas(ds.lk, dct.key) THEN R(DErr(ds), Missing)
           ELSE LET n == PairsGet(ds.lk, dct.key) IN
           IF n = 0 THEN R(ds, EmptyOf(dct))
           ELSE LET e == Extract(ds, n, bit, IsNumeric(dct.base) /\ ~dct.hilo) IN
                IF e.ds.err THEN R(e.ds, Missing)
                ELSE IF dct.base \in {"uint", "int"} THEN R(e.ds, BitsInt(e.bits, dct.base, dct.enc))
                ELSE IF n % 8 # 0 THEN R(DErr(e.ds), Missing)
                ELSE LET bv == BytesVal(dct, BitsBytes(e.bits)) IN IF bv.ok THEN R(e.ds, bv.v) ELSE R(DErr(e.ds), Missing)
      [] OTHER -> R(DErr(ds), Missing)

RECURSIVE DecDop(_, _, _), DecParams(_, _, _, _), DecN(_, _, _, _), DecToEnd(_, _, _), DecToMarker(_, _, _)

DecParam(p, ds) ==
    IF ds.err THEN R(ds, Missing) ELSE
    LET d0 == [ds EXCEPT !.cur = IF p.bp >= 0 THEN ds.org + p.bp ELSE ds.cur]
        bit == IF p.bi >= 0 THEN p.bi ELSE 0
    IN CASE p.k \in {"VALUE", "SYSTEM"} -> DecDop(p.dop, d0, bit)
         [] p.k = "CODED-CONST" -> LET r == DecAtomic(p.dct, d0, bit) IN   \* a different value is only warned about
                                   R([r.ds EXCEPT !.mism = r.ds.mism \/ (~r.ds.err /\ ~SameVal(r.v, p.cv))], r.v)
         [] p.k = "PHYS-CONST" -> LET r == DecDop(p.dop, d0, bit) IN
                                  IF r.ds.err \/ SameVal(r.v, p.cv) THEN r ELSE R(DErr(r.ds), Missing)
         [] p.k = "RESERVED" -> LET e == Extract(d0, p.bits, bit, TRUE) IN
                                IF e.ds.err THEN R(e.ds, Missing) ELSE R(e.ds, BitsInt(e.bits, "uint", "NONE"))
         [] p.k = "MATCHING-REQUEST-PARAM" -> LET e == Extract(d0, 8 * p.len, bit, TRUE) IN
                                IF e.ds.err THEN R(e.ds, Missing) ELSE R(e.ds, BitsInt(e.bits, "uint", "NONE"))
         [] p.k = "NRC-CONST" -> LET r == DecAtomic(p.dct, d0, bit) IN
                                 IF r.ds.err \/ \E i \in 1..Len(p.cvs) : SameVal(r.v, p.cvs[i]) THEN r ELSE R(DErr(r.ds), Missing)
         [] p.k = "LENGTH-KEY" -> LET r == DecDop(p.dop, d0, bit) IN
                                  IF r.ds.err \/ r.v.t # "int" THEN R(DErr(r.ds), Missing)
                                  ELSE R([r.ds EXCEPT !.lk = PairsPut(r.ds.lk, p.n, r.v.v)], r.v)
         [] p.k = "TABLE-KEY" /\ StaticKey(p) -> R([d0 EXCEPT !.tk = PairsPut(d0.tk, p.n, p.cv.s)], Str(p.cv.s))
         [] p.k = "TABLE-KEY" -> LET r == DecAtomic(p.dop.kdct, d0, bit) IN
                                 IF r.ds.err \/ r.v.t # "int" THEN R(DErr(r.ds), Missing)
                                 ELSE LET hit == RowsKeyed(p.dop, r.v.v) IN
                                      IF Cardinality(hit) # 1 THEN R(DErr(r.ds), Missing)
                                      ELSE LET row == p.dop.rows[CHOOSE i \in hit : TRUE] IN
                                           R([r.ds EXCEPT !.tk = PairsPut(r.ds.tk, p.n, row.n)], Str(row.n))
         [] p.k = "TABLE-STRUCT" -> IF ~PairsHas(d0.tk, p.sys) THEN R(DErr(d0), Missing)
                                    ELSE LET row == p.dop.rows[CHOOSE i \in RowsNamed(p.dop, PairsGet(d0.tk, p.sys)) : TRUE] IN
                                         IF row.st.k = "none" THEN R(d0, [t |-> "pair", a |-> row.n, b |-> Missing])
                                         ELSE LET r == DecDop(row.st, d0, bit) IN R(r.ds, [t |-> "pair", a |-> row.n, b |-> r.v])
         [] OTHER -> R(DErr(d0), Missing)

DecParams(ps, i, ds, acc) ==
    IF i > Len(ps) \/ ds.err THEN R(ds, [t |-> "dict", v |-> acc])
    ELSE LET r == DecParam(ps[i], ds) IN
         DecParams(ps, i + 1, [r.ds EXCEPT !.jr = PairsPut(r.ds.jr, ps[i].n, r.v)], Append(acc, <<ps[i].n, r.v>>))

DecComposite(ps, ds) ==
    LET r == DecParams(ps, 1, [ds EXCEPT !.org = ds.cur], <<>>) IN R([r.ds EXCEPT !.org = ds.org], r.v)

DecN(sd, n, ds, acc) ==
    IF n = 0 \/ ds.err THEN R(ds, [t |-> "list", v |-> acc])
    ELSE LET r == DecDop(sd, ds, 0) IN DecN(sd, n - 1, r.ds, Append(acc, r.v))
DecToEnd(sd, ds, acc) ==
    IF ds.err \/ ds.cur >= NBytes(ds) \/ Len(acc) > 8 THEN R(ds, [t |-> "list", v |-> acc])
    ELSE LET r == DecDop(sd, ds, 0) IN
         IF r.ds.cur = ds.cur THEN R(DErr(r.ds), Missing) ELSE DecToEnd(sd, r.ds, Append(acc, r.v))   \* no progress
DecToMarker(d, ds, acc) ==
    IF ds.err \/ ds.cur >= NBytes(ds) \/ Len(acc) > 8 THEN R(ds, [t |-> "list", v |-> acc])
    ELSE LET m == DecAtomic(d.tdct, ds, 0) IN
         IF ~m.ds.err /\ SameVal(m.v, d.tv) THEN R(ds, [t |-> "list", v |-> acc])       \* marker: not consumed
         ELSE LET r == DecDop(d.st, ds, 0) IN
              IF r.ds.cur = ds.cur THEN R(DErr(r.ds), Missing) ELSE DecToMarker(d, r.ds, Append(acc, r.v))

DecDop(d, ds, bit) ==
    IF ds.err THEN R(ds, Missing) ELSE
    CASE d.k = "simple" -> DecAtomic(d.dct, ds, bit)
      [] d.k = "envdesc" ->
           LET code == PairsGet(ds.jr, d.ref) IN
           IF code.t # "int" THEN R(DErr(ds), Missing)
           ELSE LET r1 == IF d.hasall THEN DecComposite(d.all, ds) ELSE R(ds, [t |-> "dict", v |-> <<>>])
                    hit == {i \in 1..Len(d.per) : code.v \in d.per[i].codes}
                IN IF hit = {} \/ r1.ds.err THEN r1
                   ELSE LET r2 == DecComposite(d.per[CHOOSE i \in hit : \A j \in hit : i <= j].ps, r1.ds) IN
                        IF r2.ds.err THEN r2 ELSE R(r2.ds, [t |-> "dict", v |-> r1.v.v \o r2.v.v])
      [] d.k = "dtc" -> LET r == DecAtomic(d.dct, ds, bit) IN
                        IF r.ds.err THEN r
                        ELSE IF r.v.t = "int" /\ \E i \in 1..Len(d.codes) : d.codes[i] = r.v.v THEN r ELSE R(DErr(r.ds), Missing)
      [] d.k = "struct" ->
           LET r == DecComposite(d.ps, ds) IN
           IF r.ds.err \/ d.bs < 0 THEN r
           ELSE IF r.ds.cur - ds.cur > d.bs THEN R(DErr(r.ds), Missing)
           ELSE R([r.ds EXCEPT !.cur = ds.cur + d.bs, !.hi = IF ds.cur + d.bs > r.ds.hi THEN ds.cur + d.bs ELSE r.ds.hi], r.v)
      [] d.k = "sfield" ->
           LET RECURSIVE Items(_, _, _)
               Items(i, s, acc) == IF i > d.cnt \/ s.err THEN R(s, [t |-> "list", v |-> acc])
                                   ELSE LET r == DecDop(d.st, s, 0) IN
                                        Items(i + 1, [r.ds EXCEPT !.cur = s.cur + d.isz,
                                                                 !.hi = IF s.cur + d.isz > r.ds.hi THEN s.cur + d.isz ELSE r.ds.hi],
                                              Append(acc, r.v))
               r0 == Items(1, [ds EXCEPT !.org = ds.cur], <<>>)
           IN R([r0.ds EXCEPT !.org = ds.org], r0.v)
      [] d.k = "dlfield" ->
           LET d0 == [ds EXCEPT !.org = ds.cur, !.cur = ds.cur + d.cbp]
               c == DecAtomic(d.cdct, d0, d.cbit)
           IN IF c.ds.err \/ c.v.t # "int" \/ c.v.v < 0 THEN R(DErr(c.ds), Missing)
              ELSE LET pos == d0.org + d.off
                       r == DecN(d.st, c.v.v, [c.ds EXCEPT !.cur = pos, !.hi = IF pos > c.ds.hi /\ pos <= NBytes(ds) THEN pos ELSE c.ds.hi], <<>>) IN
                   R([r.ds EXCEPT !.org = ds.org], r.v)
      [] d.k = "eopfield" ->
           LET r == DecToEnd(d.st, [ds EXCEPT !.org = ds.cur], <<>>) IN R([r.ds EXCEPT !.org = ds.org], r.v)
      [] d.k = "demfield" ->
           LET r == DecToMarker(d, [ds EXCEPT !.org = ds.cur], <<>>) IN R([r.ds EXCEPT !.org = ds.org], r.v)
      [] d.k = "mux" ->
           LET d0 == [ds EXCEPT !.org = ds.cur, !.cur = ds.cur + d.kbp]
               kr == DecAtomic(d.kdct, d0, d.kbit)
           IN IF kr.ds.err \/ kr.v.t # "int" THEN R(DErr(kr.ds), Missing)
              ELSE LET hit == {i \in 1..Len(d.cases) : d.cases[i].lo <= kr.v.v /\ kr.v.v <= d.cases[i].hi} IN
                   IF hit = {} /\ ~d.hasdflt THEN R(DErr(kr.ds), Missing)
                   ELSE LET c == IF hit # {} THEN d.cases[CHOOSE i \in hit : \A j \in hit : i <= j] ELSE d.dflt
                            pos == d0.org + d.bp
                            d1 == [kr.ds EXCEPT !.cur = pos, !.hi = IF pos > kr.ds.hi /\ pos <= NBytes(ds) THEN pos ELSE kr.ds.hi]
                        IN IF c.st.k = "none" THEN R([d1 EXCEPT !.org = ds.org], [t |-> "pair", a |-> c.n, b |-> [t |-> "dict", v |-> <<>>]])
                           ELSE LET r == DecDop(c.st, d1, 0) IN
                                R([r.ds EXCEPT !.org = ds.org], [t |-> "pair", a |-> c.n, b |-> r.v])
      [] OTHER -> R(DErr(ds), Missing)

DecodeMsg(ps, pdu) == DecComposite(ps, DecInit(pdu))

---------------------------------------------------------------------------
(* static descriptions (C08) *)
DctStaticBits(dct) == IF dct.k = "std" THEN dct.bits ELSE -1
RECURSIVE DopStaticBits(_), ListStaticBits(_, _, _, _)
\* static length in bits of a parameter list, or -1: the furthest byte any parameter reaches
ListStaticBits(ps, i, cur, maxb) ==
    IF i > Len(ps) THEN 8 * maxb
    ELSE LET p == ps[i]
             n == CASE p.k \in {"VALUE", "SYSTEM", "PHYS-CONST", "LENGTH-KEY"} -> DopStaticBits(p.dop)
                    [] p.k \in {"CODED-CONST", "NRC-CONST"} -> DctStaticBits(p.dct)
                    [] p.k = "RESERVED" -> p.bits
                    [] p.k = "MATCHING-REQUEST-PARAM" -> 8 * p.len
                    [] OTHER -> -1
             c0 == IF p.bp >= 0 THEN p.bp ELSE cur
             c1 == c0 + (((IF p.bi >= 0 THEN p.bi ELSE 0) + n + 7) \div 8)
         IN IF n < 0 THEN -1 ELSE ListStaticBits(ps, i + 1, c1, IF c1 > maxb THEN c1 ELSE maxb)
\* (the library reports no static length for DTC objects; C08 only speaks about lengths that are reported)
DopStaticBits(d) == CASE d.k = "simple" -> DctStaticBits(d.dct)
                      [] d.k = "struct" -> IF d.bs >= 0 THEN 8 * d.bs ELSE ListStaticBits(d.ps, 1, 0, 0)
                      [] OTHER -> -1
MsgStaticBits(ps) == ListStaticBits(ps, 1, 0, 0)

IsRequired(p) == CASE p.k \in {"VALUE"} -> IsMissing(p.dv) [] p.k = "SYSTEM" -> IsMissing(p.dv) [] p.k = "TABLE-STRUCT" -> TRUE [] OTHER -> FALSE
IsSettable(p) == p.k \in {"VALUE", "SYSTEM", "LENGTH-KEY", "TABLE-KEY", "TABLE-STRUCT"}
Required(ps) == {ps[i].n : i \in {j \in 1..Len(ps) : IsRequired(ps[j])}}
Free(ps) == {ps[i].n : i \in {j \in 1..Len(ps) : IsSettable(ps[j])}}
\* the leading constants (and request echoes) of a message, encoded
RECURSIVE PrefixLen(_, _)
PrefixLen(ps, i) == IF i > Len(ps) \/ ps[i].k \notin {"CODED-CONST", "PHYS-CONST", "MATCHING-REQUEST-PARAM"} THEN i - 1
                    ELSE PrefixLen(ps, i + 1)
ConstPrefix(ps, rqm) == LET k == PrefixLen(ps, 1) IN
                        PduBytes(EncParams(SubSeq(ps, 1, k), 1, [t |-> "dict", v |-> <<>>], EncInit(rqm), FALSE))
=============================================================================
