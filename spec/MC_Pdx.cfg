SPECIFICATION Spec
CONSTANTS
  FileSets <- MCFileSets
  Databases <- MCDatabases
INVARIANT LoaderIsCanon
INVARIANT NoDocTwice
INVARIANT WriteThenLoad
INVARIANT WriteIsStable
INVARIANT Emit
