CONSTANT Wrong = TRUE
SPECIFICATION SpecC04Quick
INVARIANT UndescribedBitsZero
INVARIANT RoundTrip
INVARIANT Emit
