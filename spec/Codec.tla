------------------------------- MODULE Codec -------------------------------
(***************************************************************************)
(* The codec model: pick a message description from Family, then evaluate  *)
(* the reference encoder and decoder of CodecCore on every value           *)
(* assignment of that description (all subsets of supplied parameters x    *)
(* the value alphabet of each data object).  The design-level invariants   *)
(* show that the reference is self-consistent (round trip, undescribed     *)
(* bits zero, static length exact, prefix is a prefix, required <=>        *)
(* omission fails); the terminal state carries every case with its PDU,    *)
(* overlap flag, decoded values and the decode verdict of every proper     *)
(* prefix, which the harness replays into the real library.                *)
(***************************************************************************)
EXTENDS CodecCore

\* The families of descriptions are given by the action PickAny of the model module (MC_Codec.tla): it is written
\* as nested existential quantification so that TLC enumerates the descriptions without first building their set.

CONSTANTS Wrong         \* TRUE: value alphabets are widened to the wrong (C04): out of range, too long/short, wrongly typed
VARIABLES phase, desc,
          cases      \* every case of desc, evaluated once by the action Evaluate
vars == <<phase, desc, cases>>

Tok(n) == [t |-> "tok", name |-> n]
BytesV(b) == [t |-> "bytes", v |-> b]
TextV(c) == [t |-> "text", v |-> c]
FloatV(b) == [t |-> "float", v |-> b]
ListV(l) == [t |-> "list", v |-> l]
DictV(d) == [t |-> "dict", v |-> d]

---------------------------------------------------------------------------
(* value alphabets *)
Bad(n) == [t |-> "bad", name |-> n]          \* a value of the wrong Python type (the harness supplies the object)
BadValues == {Bad("str"), Bad("float"), Bad("bytes"), Bad("none"), Bad("list"), Bad("dict")}
RightValues(dct) ==
    CASE dct.base = "uint" -> (IF dct.enc \in {"NONE", "DEFAULT"} THEN {IntV(0), IntV(5), Tok("MAXU")} ELSE {IntV(0), IntV(9), IntV(12)})
      [] dct.base = "int" -> {IntV(0), IntV(-1), IntV(3), Tok("MINS1"), Tok("MINS")}
      [] dct.base = "f32" -> {FloatV(<<63, 128, 0, 0>>), FloatV(<<192, 73, 15, 219>>)}
      [] dct.base = "f64" -> {FloatV(<<63, 240, 0, 0, 0, 0, 0, 0>>), FloatV(<<192, 9, 33, 251, 84, 68, 45, 24>>)}
      [] dct.base = "bytes" -> (IF dct.k = "std" THEN {BytesV([i \in 1..(dct.bits \div 8) |-> 16 + i]), BytesV([i \in 1..(dct.bits \div 8) |-> 255])}
                               ELSE {BytesV(<<>>), BytesV(<<18>>), BytesV(<<18, 52, 86>>)})
      [] OTHER -> {TextV(<<>>), TextV(<<65>>), TextV(<<65, 228>>), TextV(<<8364, 66>>), TextV(<<256>>)}   \* U+0100 = 01 00 in UCS-2
\* centred on the representability boundaries: every integer around the n-bit range for small n, the boundaries beyond
WrongValues(dct) ==
    BadValues \cup
    CASE dct.base \in {"uint", "int"} ->
           (IF dct.k = "std" /\ dct.bits <= 8 THEN {IntV(k) : k \in (-Pow2(dct.bits) - 1)..(Pow2(dct.bits) + 1)}
            ELSE {IntV(0), IntV(-1), IntV(1), Tok("MAXU"), Tok("OVERU"), Tok("MAXS"), Tok("OVERS"), Tok("MINS"), Tok("UNDERS"), Tok("MINS1")})
      [] dct.base \in {"f32", "f64"} -> RightValues(dct)
      [] dct.base = "bytes" -> {BytesV([i \in 1..n |-> 16 + i]) : n \in 0..4}
      [] OTHER -> {TextV(<<>>), TextV(<<65>>), TextV(<<65, 228>>), TextV(<<8364, 66>>), TextV(<<65, 66, 67>>), TextV(<<65, 66, 67, 68, 69>>)}
DctValues(dct) == IF Wrong THEN WrongValues(dct) ELSE RightValues(dct)

RECURSIVE DopValues(_), Assignments(_, _)
ParamValues(p) ==
    CASE p.k \in {"VALUE", "SYSTEM"} -> DopValues(p.dop) \cup {Missing}
      [] p.k = "TABLE-KEY" -> {Missing} \cup {Str(p.dop.rows[i].n) : i \in 1..Len(p.dop.rows)} \cup (IF Wrong THEN {Str("nosuchrow"), Bad("float"), Bad("list")} ELSE {})
      [] p.k = "TABLE-STRUCT" -> {Missing} \cup
             UNION {IF p.dop.rows[i].st.k = "none" THEN (IF Wrong THEN {[t |-> "pair", a |-> p.dop.rows[i].n, b |-> Missing]} ELSE {})
                    ELSE {[t |-> "pair", a |-> p.dop.rows[i].n, b |-> x] : x \in DopValues(p.dop.rows[i].st)} : i \in 1..Len(p.dop.rows)}
             \cup (IF Wrong THEN {[t |-> "pair", a |-> "nosuchrow", b |-> Missing], Bad("str"), Bad("list")} ELSE {})
      \* a constant may be supplied: only its own value is accepted (not the frame of every description, to keep the family small)
      [] p.k \in {"CODED-CONST", "PHYS-CONST"} /\ Wrong /\ p.n \notin {"sid", "tail"} /\ p.cv.t = "int" ->
             {Missing, p.cv, IntV(0), IntV(1)}
      [] OTHER -> {Missing}
\* all assignments: each settable parameter supplied with a value of its alphabet or omitted
Assignments(ps, i) ==
    IF i > Len(ps) THEN (IF Wrong THEN {<<>>, <<<<"zz_unknown", IntV(1)>>>>} ELSE {<<>>})
    ELSE LET rest == Assignments(ps, i + 1) IN
         {IF IsMissing(o) THEN r ELSE <<<<ps[i].n, o>>>> \o r : o \in ParamValues(ps[i]), r \in rest}
ItemLists(sd) == LET vs == DopValues(sd) IN
                 {ListV(<<>>)} \cup {ListV(<<a>>) : a \in vs} \cup {ListV(<<a, b>>) : a \in vs, b \in vs}
DopValues(d) ==
    IF "alpha" \in DOMAIN d THEN d.alpha ELSE      \* a data object may bring its own value alphabet
    CASE d.k = "simple" -> DctValues(d.dct)
      \* one dictionary per trouble code: the common parameters and those of that code
      [] d.k = "envdesc" -> {DictV(a \o b) : a \in (IF d.hasall THEN Assignments(d.all, 1) ELSE {<<>>}),
                                            b \in UNION {Assignments(d.per[i].ps, 1) : i \in 1..Len(d.per)}}
      [] d.k = "dtc" -> {IntV(d.codes[i]) : i \in 1..Len(d.codes)} \cup
                        (IF Wrong THEN {IntV(d.codes[1] + 1), IntV(-1), Bad("float"), Bad("none"), Bad("list")} ELSE {})
      [] d.k = "struct" -> {DictV(a) : a \in Assignments(d.ps, 1)}
      [] d.k = "mux" -> UNION {IF c.st.k = "none" THEN {[t |-> "pair", a |-> c.n, b |-> DictV(<<>>)]}
                                ELSE {[t |-> "pair", a |-> c.n, b |-> x] : x \in DopValues(c.st)} :
                                c \in {d.cases[i] : i \in 1..Len(d.cases)} \cup (IF d.hasdflt THEN {d.dflt} ELSE {})}
      [] d.k = "sfield" -> LET vs == DopValues(d.st) IN
                           IF d.cnt = 1 THEN {ListV(<<a>>) : a \in vs} ELSE {ListV(<<a, b>>) : a \in vs, b \in vs}
      [] OTHER -> ItemLists(d.st)

---------------------------------------------------------------------------
(* what the decoder must give back for a supplied value: the canonical form *)
RECURSIVE CanonDop(_, _), CanonDict(_, _)
CanonAtomic(dct, v, n) == IF v.t \in {"int", "tok"} THEN BitsInt(IntBits(v, dct.base, dct.enc, n).bits, dct.base, dct.enc) ELSE v
CanonDop(d, v) ==
    CASE d.k = "simple" -> (IF d.dct.k = "std" THEN CanonAtomic(d.dct, v, d.dct.bits)
                            ELSE IF d.dct.k = "paramlen" /\ d.dct.base \in {"uint", "int"} THEN CanonAtomic(d.dct, v, 32)
                            ELSE v)
      [] d.k = "dtc" -> v
      [] d.k = "envdesc" -> Missing          \* which parameters come back depends on the trouble code: compared by the harness
      [] d.k = "struct" -> CanonDict(d.ps, v)
      [] d.k = "mux" -> LET cs == {d.cases[i] : i \in 1..Len(d.cases)} \cup (IF d.hasdflt THEN {d.dflt} ELSE {})
                            c == CHOOSE x \in cs : x.n = v.a IN
                        [t |-> "pair", a |-> v.a, b |-> IF c.st.k = "none" THEN DictV(<<>>) ELSE CanonDop(c.st, v.b)]
      [] OTHER -> ListV([i \in 1..Len(v.v) |-> CanonDop(d.st, v.v[i])])
\* supplied values in canonical form, defaults and constants filled in
CanonDict(ps, d) ==
    DictV([i \in 1..Len(ps) |->
        LET p == ps[i]
            v == DictGet(d, p.n) IN
        <<p.n, CASE p.k \in {"VALUE", "SYSTEM"} /\ p.dop.k = "envdesc" ->
                      \* the common parameters, then those of the trouble code of the referenced parameter
                      LET refs == {j \in 1..Len(ps) : ps[j].n = p.dop.ref}
                          code == IF refs = {} THEN Missing ELSE Effective(ps[CHOOSE j \in refs : TRUE], DictGet(d, p.dop.ref))
                          hit == IF code.t = "int" THEN {j \in 1..Len(p.dop.per) : code.v \in p.dop.per[j].codes} ELSE {}
                          lst == (IF p.dop.hasall THEN p.dop.all ELSE <<>>) \o
                                 (IF hit = {} THEN <<>> ELSE p.dop.per[CHOOSE j \in hit : \A j2 \in hit : j <= j2].ps)
                      IN IF IsMissing(v) \/ v.t # "dict" THEN Missing ELSE CanonDict(lst, v)
                 [] p.k \in {"VALUE", "SYSTEM"} -> CanonDop(p.dop, IF IsMissing(v) THEN p.dv ELSE v)
                 [] p.k = "TABLE-KEY" ->    \* the row named explicitly, or by the TABLE-STRUCT that uses the key
                      LET users == {j \in 1..Len(ps) : ps[j].k = "TABLE-STRUCT" /\ ps[j].sys = p.n /\ ~IsMissing(DictGet(d, ps[j].n))} IN
                      IF StaticKey(p) THEN p.cv
                      ELSE IF ~IsMissing(v) THEN v
                      ELSE IF users # {} THEN Str(DictGet(d, ps[CHOOSE j \in users : TRUE].n).a) ELSE Missing
                 [] p.k = "TABLE-STRUCT" ->
                      IF IsMissing(v) \/ v.t # "pair" \/ RowsNamed(p.dop, v.a) = {} THEN Missing
                      ELSE LET row == p.dop.rows[CHOOSE i2 \in RowsNamed(p.dop, v.a) : TRUE] IN
                           [t |-> "pair", a |-> v.a, b |-> IF row.st.k = "none" THEN Missing ELSE CanonDop(row.st, v.b)]
                 [] p.k = "CODED-CONST" -> CanonAtomic(p.dct, p.cv, p.dct.bits)
                 [] p.k = "PHYS-CONST" -> CanonDop(p.dop, p.cv)
                 [] OTHER -> Missing>>])
\* d2 (decoded) agrees with d1 (expected) wherever d1 prescribes a value
RECURSIVE Agrees(_, _)
Agrees(e, g) ==
    IF e.t = "missing" THEN TRUE
    ELSE IF e.t # g.t THEN FALSE
    ELSE CASE e.t = "dict" -> Len(e.v) = Len(g.v) /\ \A i \in 1..Len(e.v) : e.v[i][1] = g.v[i][1] /\ Agrees(e.v[i][2], g.v[i][2])
           [] e.t = "list" -> Len(e.v) = Len(g.v) /\ \A i \in 1..Len(e.v) : Agrees(e.v[i], g.v[i])
           [] e.t = "pair" -> e.a = g.a /\ Agrees(e.b, g.b)
           [] OTHER -> e = g

---------------------------------------------------------------------------
(* one case *)
PrefixVerdicts(ps, bytes) ==
    [k \in 0..(Len(bytes) - 1) |-> DecodeMsg(ps, BytesBits(SubSeq(bytes, 1, k))).ds.err]
RunCase(ps, rq, a) ==
    LET vals == DictV(a)
        st == EncodeMsg(ps, vals, rq)
        bytes == IF st.err THEN <<>> ELSE PduBytes(st)
        dec == IF st.err THEN R(DErr(DecInit(<<>>)), Missing) ELSE DecodeMsg(ps, st.pdu)
    IN [vals |-> vals, err |-> st.err, pdu |-> bytes, ovl |-> st.ovl /\ ~st.err,
        clean |-> st.err \/ \A j \in 1..Len(st.pdu) : st.used[j] = 1 \/ st.pdu[j] = 0,
        derr |-> dec.ds.err, dvals |-> dec.v, dhi |-> dec.ds.hi,
        \* overlapping objects (the encoder warns) cannot be expected to come back
        rt |-> st.err \/ st.ovl \/ (~dec.ds.err /\ Agrees(CanonDict(ps, vals), dec.v)),
        trunc |-> IF st.err THEN <<>> ELSE [k \in 1..Len(bytes) |-> PrefixVerdicts(ps, bytes)[k - 1]]]
AllCases(d) == {RunCase(d.ps, d.rq, a) : a \in Assignments(d.ps, 1)}
Cases(d) == cases
OkCases(d) == {c \in cases : ~c.err}
Supplied(c) == {c.vals.v[i][1] : i \in 1..Len(c.vals.v)}
IsPrefixOf(a, b) == Len(a) <= Len(b) /\ SubSeq(b, 1, Len(a)) = a

---------------------------------------------------------------------------
Init == phase = "pick" /\ desc = [ps |-> <<>>, rq |-> <<>>] /\ cases = {}
Pick(d) == phase = "pick" /\ desc' = d /\ phase' = "picked" /\ UNCHANGED cases
Evaluate == phase = "picked" /\ phase' = "done" /\ cases' = AllCases(desc) /\ UNCHANGED desc
Done == phase = "done"

(* design-level invariants of the reference *)
RoundTrip == Done => \A c \in Cases(desc) : c.rt                                      \* C01
\* (an end marker that no parameter describes is written but never read: such descriptions are exempt)
HasDem(ps) == \E i \in 1..Len(ps) : ps[i].dop.k = "demfield"
ConsumesWholePdu == Done /\ ~HasDem(desc.ps) => \A c \in OkCases(desc) : c.ovl \/ c.dhi = Len(c.pdu)               \* C01
UndescribedBitsZero == Done => \A c \in Cases(desc) : c.clean                         \* C02
StaticLenExact == Done /\ MsgStaticBits(desc.ps) >= 0 =>
                      \A c \in OkCases(desc) : 8 * Len(c.pdu) = MsgStaticBits(desc.ps) \* C08
PrefixIsPrefix == Done => \A c \in OkCases(desc) : c.ovl \/ IsPrefixOf(ConstPrefix(desc.ps, desc.rq), c.pdu)
RequiredIffOmissionFails ==
    Done => /\ \A c \in Cases(desc) : (Required(desc.ps) \ Supplied(c) # {}) => c.err
            /\ \A n \in Free(desc.ps) \ Required(desc.ps) :
                   OkCases(desc) # {} => \E c \in OkCases(desc) : n \notin Supplied(c)
TruncatedRejected == Done => \A c \in OkCases(desc) : c.trunc = <<>> \/ c.trunc[1]    \* the empty PDU never decodes
=============================================================================
