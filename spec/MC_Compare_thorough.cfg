SPECIFICATION Spec
CONSTANTS
  Alphabet <- MCAlphabet
  Dops0 <- MCDops
  NewNames <- MCNewNames
  MaxServices = 3
  MaxEdits = 2
INVARIANT SelfCompareEmpty
INVARIANT Unedited
INVARIANT SingleEditExact
INVARIANT SwapSymmetric
INVARIANT Emit
