SPECIFICATION SnoopSpec
CONSTANTS
  ServiceAlphabet <- MCServices
  GnrAlphabet <- MCGnrs
  MaxServices = 2
  Bytes <- MCBytes
  MaxMsgLen = 3
  SnoopLayer <- MCSnoopLayer
  TesterMsgs <- MCTesterMsgs
  EcuMsgs <- MCEcuMsgs
  Depth = 3
INVARIANT ContextIsLatest
INVARIANT RecognizedNeedsContext
PROPERTY EcuKeepsContext
INVARIANT SnoopEmit
CHECK_DEADLOCK FALSE
