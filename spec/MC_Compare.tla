---------------------------- MODULE MC_Compare ----------------------------
(* Service alphabet for Compare.tla (the harness emits the same services as ODX XML) and JSON emission. *)
EXTENDS Compare, Json

\* Session / index: two-byte constant prefixes that differ in the first byte ("index" is also the name of a list method)
\* ReadA / ReadB:   the same one-byte prefix (22), different parameter lists
\* Free:            no constant prefix at all;   Ping: a request without parameters;   Write: a PHYS-CONST parameter
\* (a service without request is not valid ODX; Compare.tla keeps hasrq for the classification's sake)
MCAlphabet == <<
  Service("Session", TRUE, <<Cst("sid", 16), Cst("sub", 1)>>, <<Cst("sid", 80), Cst("sub", 1)>>, <<>>),
  Service("ReadA", TRUE, <<Cst("sid", 34), Val("did", "d1")>>, <<Cst("sid", 98), Val("did", "d1"), Val("data", "d2")>>,
          <<Cst("nr", 127), Cst("sid", 34), Val("nrc", "d1")>>),
  Service("index", TRUE, <<Cst("sid", 17), Cst("sub", 1)>>, <<Cst("sid", 81)>>, <<>>),
  Service("ReadB", TRUE, <<Cst("sid", 34), Val("did", "d1"), Val("x", "d2")>>, <<Cst("sid", 98), Val("x", "d2")>>, <<>>),
  Service("Free", TRUE, <<Val("a", "d1")>>, <<Cst("sid", 64)>>, <<>>),
  Service("Ping", TRUE, <<>>, <<Cst("sid", 65)>>, <<>>),
  Service("Write", TRUE, <<Cst("sid", 46), Phc("id", "d1", 5), Val("v", "d2")>>, <<Cst("sid", 110)>>, <<>>)
>>
MCDops == [d \in {"d1", "d2"} |-> [bits |-> IF d = "d1" THEN 8 ELSE 16, pt |-> "A_UINT32"]]
MCNewNames == {"Aaa", "Zzz"}

Side(x) == [svcs |-> x.svcs, dops |-> [d \in DOMAIN x.dops |-> x.dops[d]]]
Rep(r) == [new |-> r.new, deleted |-> r.deleted, renamed |-> r.renamed, changed |-> r.changed,
           details |-> {[svc |-> d[1], w |-> d[2], i |-> d[3], labels |-> d[4]] : d \in r.details}, ambiguous |-> r.ambiguous]
Emit == phase = "edit" => PrintT(ToJson([old |-> old, new |-> new, edits |-> edits, report |-> Rep(Report(old, new)),
                                          swapped |-> Rep(Report(new, old)),
                                          metrics |-> <<Metrics(old), Metrics(new)>>]))
=============================================================================
