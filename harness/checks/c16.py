"""C16 - named item lists keep list and name views consistent.

1. TLC checks spec/NamedItemList.tla exhaustively under the permissive naming policy (design).
2. TLC dumps the state graph of the implementation-shaped policy; every edge is executed on a real
   NamedItemList and the projected state compared with the TLC state (direction A).
3. Random long histories run on the real object are validated by TLC against
   NamedItemListTrace.tla (direction B); so are all histories of step 2 that did not conform.
"""
from __future__ import annotations

import copy
import json
import pickle
import random
import re
from collections import deque
from typing import Any, Dict, List, Optional, Tuple

from .. import tlc
from ..common import Verdicts, import_repo, seed

PROP = "C16"

BASE_SN = {1: "a", 2: "a", 3: "e", 4: "e", 5: "append", 6: "1x", 7: "class", 8: "a_2", 9: "x_", 10: "items"}
EQCLASS = {1: 1, 2: 2, 3: 3, 4: 3, 5: 5, 6: 6, 7: 7, 8: 8, 9: 9, 10: 10}
COPYKINDS = ("copy", "copycopy", "deepcopy", "pickle")


class It:
    """An item: identified by key (identity), compared by equality class."""

    def __init__(self, key: int) -> None:
        self.key = key
        self.short_name = BASE_SN[key]
        self.eq = EQCLASS[key]

    def __eq__(self, o: object) -> bool:
        return isinstance(o, It) and o.eq == self.eq

    def __hash__(self) -> int:
        return hash(self.eq)

    def __repr__(self) -> str:
        return f"It({self.key})"


class Real:
    """The real object driven through its public API, with the projection used by both directions."""

    def __init__(self) -> None:
        from odxtools.nameditemlist import NamedItemList
        self.cls = NamedItemList
        self.nil = NamedItemList()
        self.pool = {k: It(k) for k in BASE_SN}
        self.cp = None
        self.cp_deep = False

    def apply(self, op: str, i: int = 0, j: int = 0, k: int = 0) -> str:
        try:
            if op == "append":
                self.nil.append(self.pool[i])
            elif op == "insert":
                self.nil.insert(k, self.pool[i])
            elif op == "extend":
                # any iterable is a legal argument: a list, a tuple or a one-shot iterator (chosen by the operands)
                pair = [self.pool[i], self.pool[j]]
                self.nil.extend(pair if (i + j) % 3 == 0 else (tuple(pair) if (i + j) % 3 == 1 else iter(pair)))
            elif op == "remove":
                self.nil.remove(It(i))  # an equal object, not necessarily the identical one
            elif op == "pop":
                self.nil.pop(k)
            elif op == "clear":
                self.nil.clear()
            elif op == "copy":
                self.cp, self.cp_deep = self.nil.copy(), False
            elif op == "copycopy":
                self.cp, self.cp_deep = copy.copy(self.nil), False
            elif op == "deepcopy":
                self.cp, self.cp_deep = copy.deepcopy(self.nil), True
            elif op == "pickle":
                self.cp, self.cp_deep = pickle.loads(pickle.dumps(self.nil)), True
            else:
                raise RuntimeError(op)
        except Exception as e:  # noqa: BLE001 - the class name is the observation
            return type(e).__name__
        return ""

    @staticmethod
    def project(nil: Any) -> Tuple[List[int], Dict[str, int], bool]:
        lst = [x.key for x in list(nil)]
        names = {str(n): v.key for n, v in nil.items()}
        ok = len(nil) == len(lst) and list(nil.keys()) == list(names.keys()) \
            and [v.key for v in nil.values()] == list(names.values())
        for n, v in nil.items():
            try:
                if nil[n] is not v or getattr(nil, n) is not v:
                    ok = False
                if not any(x is v for x in nil):
                    ok = False
                if nil.get(n) is not v:
                    ok = False
            except Exception:  # noqa: BLE001
                ok = False
        return lst, names, ok

    def event(self, tid: int, op: str, i: int, j: int, k: int, exc: str) -> Dict[str, Any]:
        lst, names, ok = self.project(self.nil)
        ev: Dict[str, Any] = {"tid": tid, "op": op, "i": i, "j": j, "k": k, "exc": exc, "list": lst, "names": names,
                              "lookup": ok, "hascopy": self.cp is not None, "list2": [], "names2": {},
                              "lookup2": True}
        if self.cp is not None:
            l2, n2, ok2 = self.project(self.cp)
            if type(self.cp) is not self.cls:
                ok2 = False
            if self.cp_deep and any(x is y for x in self.cp for y in self.nil):
                ok2 = False  # a deep copy must not share items
            ev.update(list2=l2, names2=n2, lookup2=ok2)
        return ev


_LBL = re.compile(r"^Do(\w+?)(?:\((.*)\))?$")


def parse_label(lbl: str) -> Tuple[str, int, int, int]:
    m = _LBL.match(lbl)
    if not m:
        raise tlc.MachineryError(f"unknown action label {lbl!r}")
    name = m[1].lower()
    args = [a.strip().strip('"') for a in m[2].split(",")] if m[2] else []
    if name in ("append", "remove"):
        return name, int(args[0]), 0, 0
    if name == "insert":
        return name, int(args[1]), 0, int(args[0])
    if name == "extend":
        return name, int(args[0]), int(args[1]), 0
    if name == "pop":
        return name, 0, 0, int(args[0])
    if name == "clear":
        return name, 0, 0, 0
    if name == "copy":
        return args[0], 0, 0, 0
    raise tlc.MachineryError(f"unknown action {lbl!r}")


def model_state(node: Dict[str, Any]) -> Tuple[List[int], Dict[str, int], bool, List[int], Dict[str, int]]:
    def fn(v: Any) -> Dict[str, int]:
        return dict(v) if isinstance(v, dict) else {}
    return (list(node["items"]), fn(node["names"]), bool(node["hascopy"]), list(node["items2"]), fn(node["names2"]))


def run_history(ops: List[Tuple[str, int, int, int]], tid: int) -> Tuple[List[Dict[str, Any]], Real]:
    r = Real()
    evs: List[Dict[str, Any]] = [{"tid": tid, "op": "init"}]
    for (op, i, j, k) in ops:
        exc = r.apply(op, i, j, k)
        evs.append(r.event(tid, op, i, j, k, exc))
    return evs, r


def replay_graph(g: tlc.Graph, stats: Dict[str, int], sample: Optional[List[Any]] = None,
                 rng: Optional[random.Random] = None) -> List[List[Tuple[str, int, int, int]]]:
    """Execute every edge of the graph on a real object; return the histories that did not conform."""
    if len(g.init) != 1:
        raise tlc.MachineryError(f"expected one initial state, got {len(g.init)}")
    out: Dict[str, List[Tuple[str, str]]] = {}
    for (s, d, lbl) in g.edges:
        out.setdefault(s, []).append((d, lbl))
    # BFS tree: path of labels to each node
    path: Dict[str, Tuple[Optional[str], Optional[str]]] = {g.init[0]: (None, None)}
    q = deque([g.init[0]])
    while q:
        n = q.popleft()
        for (d, lbl) in out.get(n, []):
            if d not in path:
                path[d] = (n, lbl)
                q.append(d)
    if len(path) != len(g.nodes):
        raise tlc.MachineryError(f"graph not connected: {len(path)} of {len(g.nodes)} reachable")

    def ops_to(n: str) -> List[Tuple[str, int, int, int]]:
        ops = []
        while path[n][0] is not None:
            ops.append(parse_label(path[n][1]))  # type: ignore[arg-type]
            n = path[n][0]  # type: ignore[assignment]
        return ops[::-1]

    bad: List[List[Tuple[str, int, int, int]]] = []
    tainted: set = set()  # nodes whose tree path contains a non-conforming step: model and object disagree there
    order = list(path)  # BFS order
    for src in order:
        lst = out.get(src, [])
        parent = path[src][0]
        if parent is not None and parent in tainted:
            tainted.add(src)
        if src in tainted:
            stats["edges_skipped_after_nonconforming"] = stats.get("edges_skipped_after_nonconforming", 0) + len(lst)
            continue
        prefix = ops_to(src)
        for (dst, lbl) in lst:
            op = parse_label(lbl)
            r = Real()
            excs = [r.apply(*_o) for _o in prefix + [op]]
            ev = r.event(0, op[0], op[1], op[2], op[3], excs[-1])
            want = model_state(g.nodes[dst])
            got = (ev["list"], ev["names"], ev["hascopy"], ev["list2"], ev["names2"])
            stats["edges"] += 1
            stats["ops"] += len(prefix) + 1
            if any(excs) or got != want or not ev["lookup"] or not ev["lookup2"]:
                stats["nonconforming"] += 1
                if path[dst] == (src, lbl):
                    tainted.add(dst)
                if len(bad) < 5000:
                    bad.append(prefix + [op])
            elif sample is not None and rng is not None and rng.random() < 0.002:
                sample.append(prefix + [op])
    return bad


def random_histories(n: int, length: int, rng: random.Random, maxlen: int = 9) -> List[List[Tuple[str, int, int, int]]]:
    """Long random histories, legal by construction (the driver tracks only which keys are in the list)."""
    hs = []
    for _ in range(n):
        cur: List[int] = []
        ops: List[Tuple[str, int, int, int]] = []
        while len(ops) < length:
            absent = [k for k in BASE_SN if k not in cur]
            choice = rng.random()
            if choice < 0.25 and absent and len(cur) < maxlen:
                i = rng.choice(absent)
                ops.append(("append", i, 0, 0))
                cur.append(i)
            elif choice < 0.40 and absent and len(cur) < maxlen:
                i = rng.choice(absent)
                k = rng.randint(0, len(cur))
                ops.append(("insert", i, 0, k))
                cur.insert(k, i)
            elif choice < 0.50 and len(absent) >= 2 and len(cur) + 2 <= maxlen:
                i, j = rng.sample(absent, 2)
                ops.append(("extend", i, j, 0))
                cur += [i, j]
            elif choice < 0.70 and cur:
                # remove by equality: any key whose class is present
                classes = {EQCLASS[c] for c in cur}
                i = rng.choice([k for k in BASE_SN if EQCLASS[k] in classes])
                ops.append(("remove", i, 0, 0))
                idx = next(n_ for n_, c in enumerate(cur) if EQCLASS[c] == EQCLASS[i])
                cur.pop(idx)
            elif choice < 0.85 and cur:
                k = rng.randint(0, len(cur) - 1)
                ops.append(("pop", 0, 0, k))
                cur.pop(k)
            elif choice < 0.88 and cur:
                ops.append(("clear", 0, 0, 0))
                cur = []
            elif choice < 1.0:
                ops.append((rng.choice(COPYKINDS), 0, 0, 0))
        hs.append(ops)
    return hs


def validate_traces(histories: List[List[Tuple[str, int, int, int]]], v: Verdicts, stats: Dict[str, Any],
                    origin: str) -> None:
    """Run the histories on the real object, let TLC judge every step."""
    if not histories:
        return
    wd = tlc.workdir("niltrace")
    try:
        tf = wd / "trace.ndjson"
        nlines = 0
        starts: Dict[int, int] = {}
        with open(tf, "w") as f:
            for tid, ops in enumerate(histories, 1):
                starts[tid] = nlines + 1
                evs, _ = run_history(ops, tid)
                for ev in evs:
                    f.write(json.dumps(ev) + "\n")
                    nlines += 1
        res = tlc.run("NamedItemListTrace.tla", "NamedItemListTrace.cfg", workers=1, env={"TRACE_FILE": str(tf)},
                      timeout=3000)
        stats["trace_lines"] += nlines
        stats["trace_tlc_s"] = round(stats.get("trace_tlc_s", 0) + res.wall_s, 2)
        if not res.ok or res.distinct != nlines + 1:
            raise tlc.MachineryError(f"trace validation did not consume the trace ({res.distinct} states for {nlines} "
                                     f"lines): {res.errors[:3]} {res.stdout[-1500:]}")
        rejected: Dict[int, Tuple[int, str]] = {}
        for val in res.values():
            if isinstance(val, tuple) and len(val) == 4 and val[0] == "V":
                rejected.setdefault(int(val[1]), (int(val[2]), str(val[3])))
        stats["traces_validated"] += len(histories)
        stats["traces_rejected"] += len(rejected)
        for tid, (line, clause) in sorted(rejected.items()):
            ops = histories[tid - 1]
            evs, _ = run_history(ops, tid)
            kind, _, name = clause.partition(":")
            # the first event of this trace that fails
            case = {"machine": "NamedItemList", "origin": origin, "history": [list(o) for o in ops],
                    "failing_op": None, "observed": None}
            cut = line - starts[tid]
            if 0 < cut < len(evs):
                case["failing_op"] = [evs[cut]["op"], evs[cut]["i"], evs[cut]["j"], evs[cut]["k"]]
                case["observed"] = evs[cut]
                case["op"] = evs[cut]["op"]
                case["history"] = [list(o) for o in ops[:cut - 1]]
            if kind == "violation":
                v.fail(name, case)
            else:
                v.diverge(name, case)
    finally:
        tlc.rmtree(wd)


def check(tier: str, replay: Optional[str] = None) -> int:
    import_repo()
    v = Verdicts(PROP, tier)
    rng = random.Random(seed())
    stats: Dict[str, Any] = {"edges": 0, "ops": 0, "nonconforming": 0, "trace_lines": 0, "traces_validated": 0,
                             "traces_rejected": 0}
    if replay:
        case = json.loads(open(replay).read())
        hist = [tuple(o) for o in case["history"]]
        if case.get("failing_op"):
            hist.append(tuple(case["failing_op"]))
        _validate(hist and [hist], v, stats, "replay")
        return v.finish({"states": 1, "transitions": len(hist), "traces_validated_against_impl": 1,
                         "samples": [case["history"]]}, ["replay of one recorded history"])

    cfgs = {"quick": [("perm", 3, "{1,2,5,8,10}", "FALSE", "{}", False),
                      ("perm_copy", 2, "{1,2}", "FALSE", '{"copy","deepcopy"}', False),
                      ("det_all", 3, "{1,2,3,4,5,6,7,8,9,10}", "TRUE", "{}", True),
                      ("det_copy", 2, "{1,2,3,4}", "TRUE", '{"copy","copycopy","deepcopy","pickle"}', True)],
            "thorough": [("perm", 3, "{1,2,3,4,5,6,7,8,9,10}", "FALSE", "{}", False),
                         ("perm_copy", 2, "{1,2,3,4}", "FALSE", '{"copy","deepcopy"}', False),
                         ("det_all", 4, "{1,2,3,4,5,6,7,8,9,10}", "TRUE", "{}", True),
                         ("det_copy", 3, "{1,2,3,4,8}", "TRUE", '{"copy","copycopy","deepcopy","pickle"}', True)]}[tier]
    states = transitions = 0
    design: Dict[str, Any] = {}
    bad: List[List[Tuple[str, int, int, int]]] = []
    conforming_sample: List[Any] = []
    samples: List[Any] = []
    for (name, maxlen, items, det, kinds, dump) in cfgs:
        wd = tlc.workdir("nil")
        try:
            cfg = wd / f"MC_NIL_{name}.cfg"
            cfg.write_text(f"SPECIFICATION Spec\nCONSTANTS\n  MaxLen = {maxlen}\n  Items = {items}\n  Det = {det}\n"
                           f"  CopyKinds = {kinds}\nINVARIANT InvConsistent\nINVARIANT InvCopyConsistent\n"
                           f"INVARIANT InvNoDup\nINVARIANT InvDetIsLegal\nPROPERTY NamesStable\n")
            extra = ["-dump", "dot,actionlabels", str(wd / "g")] if dump else []
            res = tlc.run("NamedItemList.tla", str(cfg), extra=extra, coverage=True)
            if not res.ok or res.distinct == 0:
                raise tlc.MachineryError(f"TLC failed on the design ({name}): violated={res.violated} "
                                         f"errors={res.errors[:3]}\n{res.stdout[-2000:]}")
            never = [a for a, (d, t) in res.coverage.items() if a.startswith("Do") and t == 0]
            if never and not (kinds == "{}" and never == ["DoCopy"]):
                raise tlc.MachineryError(f"vacuity: actions never taken in {name}: {never}")
            print(f"[c16] TLC {name}: {res.distinct} distinct, {res.generated} generated, {res.wall_s:.1f}s", flush=True)
            design[name] = {"distinct": res.distinct, "generated": res.generated, "depth": res.depth,
                            "tlc_s": round(res.wall_s, 1), "constants": f"MaxLen={maxlen} Items={items} Det={det}"}
            states += res.distinct
            transitions += res.generated
            if dump:
                g = tlc.read_dot(wd / "g.dot")
                if len(g.nodes) != res.distinct:
                    raise tlc.MachineryError(f"dot graph has {len(g.nodes)} nodes, TLC reported {res.distinct}")
                bad += replay_graph(g, stats, conforming_sample, rng)
                if not samples and g.edges:
                    s, d, lbl = g.edges[len(g.edges) // 2]
                    samples.append({"edge": lbl, "from": g.nodes[s], "to": g.nodes[d]})
        finally:
            tlc.rmtree(wd)
    print(f"[c16] graph replay: {stats}", flush=True)
    # direction B
    _validate(bad, v, stats, "graph-replay")
    _validate(conforming_sample, v, stats, "graph-replay-sample")
    n, length = (300, 60) if tier == "quick" else (3000, 200)
    hs = random_histories(n, length, rng)
    samples.append({"random_history": [list(o) for o in hs[0][:12]]})
    _validate(hs, v, stats, "random")
    cov = {"states": states, "transitions": transitions,
           "traces_validated_against_impl": stats["traces_validated"] + stats["edges"],
           "evaluations": stats["edges"] + stats["trace_lines"],
           "distinct_nontrivial": stats["edges"],
           "rule": "every edge of the TLC state graph of the implementation-shaped model executed on a real "
                   "NamedItemList after the BFS-tree path to its source (distinct = distinct edges); plus random "
                   "legal histories validated line by line by TLC against NamedItemListTrace",
           "exhaustive": True, "design": design, "replay": stats, "samples": samples}
    return v.finish(cov, ["TLC and the CommunityModules", "the projection in harness/checks/c16.py (list(), items(), "
                          "[], getattr, get, identity of items)", "Python's copy and pickle"])


def _validate(histories: Any, v: Verdicts, stats: Dict[str, Any], origin: str) -> None:
    if histories:
        validate_traces(histories, v, stats, origin)
