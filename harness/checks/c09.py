"""C09 - decided by spec/Layers.tla; see harness/layers.py."""
from typing import Optional

from .. import layers


def check(tier: str, replay: Optional[str] = None) -> int:
    return layers.check("C09", tier, replay)
