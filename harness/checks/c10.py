"""C10 - every reference resolves to the object it names, or loading fails (spec/Links.tla).

TLC enumerates placements of data objects with identical local IDs over four layers in two containers, import
references, and for every referring position x ID x DOCREF choice the target the ODX scoping rules prescribe; plus the
short-name reference family (layer view after inheritance, ambiguity, re-targeting).  Each (configuration, reference)
is emitted as ODX XML and loaded in strict mode; the resolved attribute must be the prescribed object.
"""
from __future__ import annotations

import json
import multiprocessing as mp
from typing import Any, Dict, List, Optional, Tuple

from .. import odxgen as og
from .. import tlc
from ..common import REPO, Verdicts, import_repo

PROP = "C10"
KIND = {"A": "BASE-VARIANT", "S": "BASE-VARIANT", "V": "ECU-VARIANT", "E": "ECU-SHARED-DATA"}
CONT = {"A": "C1", "S": "C1", "V": "C1", "E": "C2"}


def build_ids(defs: List[List[str]], imports: List[str], ref: Dict[str, Any], order: int) -> List[str]:
    layers: Dict[str, og.Layer] = {n: og.Layer(KIND[n], f"L.{n}", n) for n in "ASVE"}
    for (ln, i) in defs:
        layers[ln].dops.append(og.dop(i, f"dop_{ln}_{i}", og.dct_standard("A_UINT32", 8)).replace(
            f"<SHORT-NAME>dop_{ln}_{i}</SHORT-NAME>", f"<SHORT-NAME>dop_{ln}_{i}</SHORT-NAME><LONG-NAME>{ln}</LONG-NAME>", 1))
    for ln in imports:
        layers[ln].import_refs.append(og.ref("IMPORT-REF", "L.E", "C2", "CONTAINER"))
    layers["V"].parent_refs.append(og.parent_ref("L.A", "BASE-VARIANT", "C1"))
    src = ref["src"]
    doc = ref["doc"]
    docref, doctype = (None, None) if doc == "" else ((doc, "CONTAINER") if doc in ("C1", "C2") else (doc, "LAYER"))
    layers[src].requests.append(og.request(f"RQ.{src}", "RQ", [
        og.p_const8("sid", 0x22, bytepos=0), og.p_value("p", ref["id"], docref=docref, doctype=doctype, bytepos=1)]))
    c1 = og.container("C1", "C1", [layers[n] for n in "ASV"])
    c2 = og.container("C2", "C2", [layers["E"]])
    return [c1, c2] if order == 0 else [c2, c1]


def build_sn(sn: Dict[str, bool]) -> List[str]:
    a = og.Layer("BASE-VARIANT", "L.A", "A")
    v = og.Layer("ECU-VARIANT", "L.V", "V")
    g = og.Layer("FUNCTIONAL-GROUP", "L.G", "G")
    if sn["gdop"]:
        g.dops.append(og.dop("G.dop", "n", og.dct_standard("A_UINT32", 32)).replace("<SHORT-NAME>n</SHORT-NAME>",
                                                                                   "<SHORT-NAME>n</SHORT-NAME><LONG-NAME>G.dop</LONG-NAME>", 1))
        g.requests.append(og.request("RQ.G", "RQG", [og.p_const8("sid", 0x31, bytepos=0), og.p_value("p", None, dop_snref="n", bytepos=1)]))
        g.diag_comms.append(og.service("DC.G", "svcG", "RQ.G"))
    # a second functional group: the inheritance graph branches at A
    g2 = og.Layer("FUNCTIONAL-GROUP", "L.G2", "G2")
    g2.dops.append(og.dop("G2.m", "m", og.dct_standard("A_UINT32", 32)).replace("<SHORT-NAME>m</SHORT-NAME>",
                                                                                "<SHORT-NAME>m</SHORT-NAME><LONG-NAME>G2.m</LONG-NAME>", 1))
    g2.requests.append(og.request("RQ.G2", "RQG2", [og.p_const8("sid", 0x32, bytepos=0), og.p_value("p", None, dop_snref="m", bytepos=1)]))
    g2.diag_comms.append(og.service("DC.G2", "svcG2", "RQ.G2"))
    a.parent_refs.append(og.parent_ref("L.G", "FUNCTIONAL-GROUP", "C1"))
    a.parent_refs.append(og.parent_ref("L.G2", "FUNCTIONAL-GROUP", "C1"))
    if sn["adop"]:
        a.dops.append(og.dop("A.dop", "n", og.dct_standard("A_UINT32", 8)).replace("<SHORT-NAME>n</SHORT-NAME>",
                                                                                  "<SHORT-NAME>n</SHORT-NAME><LONG-NAME>A.dop</LONG-NAME>", 1))
    if sn["astruct"]:
        a.dops.append(og.dop("A.u8", "u8", og.dct_standard("A_UINT32", 8)))
        a.structures.append(og.structure("A.struct", "n", [og.p_value("x", "A.u8")]).replace(
            "<SHORT-NAME>n</SHORT-NAME>", "<SHORT-NAME>n</SHORT-NAME><LONG-NAME>A.struct</LONG-NAME>", 1))
    if sn["vdop"]:
        v.dops.append(og.dop("V.m", "m", og.dct_standard("A_UINT32", 16)).replace("<SHORT-NAME>m</SHORT-NAME>",
                                                                                 "<SHORT-NAME>m</SHORT-NAME><LONG-NAME>V.m</LONG-NAME>", 1))
        v.dops.append(og.dop("V.dop", "n", og.dct_standard("A_UINT32", 16)).replace("<SHORT-NAME>n</SHORT-NAME>",
                                                                                   "<SHORT-NAME>n</SHORT-NAME><LONG-NAME>V.dop</LONG-NAME>", 1))
    if sn["adop"] or sn["gdop"]:
        # a table row of A that names its data object by short name, included in a table of V by TABLE-ROW-REF
        a.tables.append(og.tag("TABLE", og.sn("TA") + og.tag("TABLE-ROW", og.sn("RA") + "<KEY>1</KEY>" +
                                                              og.snref("DATA-OBJECT-PROP-SNREF", "n"), ID="A.row"), ID="A.tab"))
        v.tables.append(og.tag("TABLE", og.sn("TV") + og.ref("TABLE-ROW-REF", "A.row"), ID="V.tab"))
    a.requests.append(og.request("RQ.A", "RQA", [og.p_const8("sid", 0x22, bytepos=0), og.p_value("p", None, dop_snref="n", bytepos=1)]))
    a.diag_comms.append(og.service("DC.A", "svcA", "RQ.A"))
    v.requests.append(og.request("RQ.V", "RQV", [og.p_const8("sid", 0x2E, bytepos=0), og.p_value("p", None, dop_snref="n", bytepos=1)]))
    v.diag_comms.append(og.service("DC.V", "svcV", "RQ.V"))
    v.parent_refs.append(og.parent_ref("L.A", "BASE-VARIANT", "C1", ni_dops=["n"] if sn["ni"] else []))
    return [og.container("C1", "C1", [g, g2, a, v])]


def _init(repo: str) -> None:
    import warnings
    from .. import common
    common.REPO = common.Path(repo)
    common.import_repo()
    warnings.simplefilter("ignore")


def _load(docs: List[str]) -> Tuple[Any, str, bool]:
    from odxtools.exceptions import OdxError
    try:
        return og.load(docs), "", False
    except Exception as e:  # noqa: BLE001
        return None, type(e).__name__, isinstance(e, (OdxError, KeyError))


def process(recs: List[Dict[str, Any]]) -> Dict[str, Any]:
    from odxtools.utils import retarget_snrefs
    fails: List[Tuple[str, Dict[str, Any]]] = []
    st = {"id_loads": 0, "unresolved": 0, "dontcare": 0, "imported_targets": 0, "sn_loads": 0, "retargets": 0, "sn_unresolved": 0, "removals": 0, "removal_unresolved": 0, "table_rows": 0}

    def fail(clause: str, detail: Dict[str, Any]) -> None:
        if len(fails) < 300:
            fails.append((clause, {"machine": "Links", **detail}))
    for rec in recs:
        if rec["kind"] == "ids":
            for ref in rec["refs"]:
                want = ref["target"]
                if want == "DontCare":
                    st["dontcare"] += 1
                    continue
                for order in (0, 1):
                    st["id_loads"] += 1
                    db, exc, expected_kind = _load(build_ids(rec["defs"], rec["imports"], ref, order))
                    base = {"defs": rec["defs"], "imports": rec["imports"], "ref": ref, "order": order, "kind": "ids",
                            "import_involved": ref["src"] in rec["imports"] or bool(rec["imports"])}
                    if want == "Unresolved":
                        st["unresolved"] += order == 0
                        if db is not None:
                            p = db.diag_layers[ref["src"]].diag_layer_raw.requests.RQ.parameters.p
                            fail("dangling_reference_bound", {**base, "bound_to": getattr(p.dop, "long_name", "?")})
                        elif not expected_kind:
                            fail("load_raises_foreign_exception", {**base, "exc": exc})
                        continue
                    st["imported_targets"] += want == "E" and ref["doc"] not in ("E", "C2")
                    if db is None:
                        fail("resolvable_reference_rejected", {**base, "exc": exc})
                        continue
                    p = db.diag_layers[ref["src"]].diag_layer_raw.requests.RQ.parameters.p
                    got = getattr(p.dop, "long_name", "?")
                    if got != want:
                        fail("bound_to_wrong_object", {**base, "bound_to": got})
                        continue
                    # ---- the object the reference is bound to is taken out of its layer and everything is resolved again:
                    # the reference names what the configuration without that object prescribes (or nothing any more)
                    after = ref.get("after")
                    if after is None or after == "DontCare":
                        continue
                    from odxtools.exceptions import OdxError
                    dd = db.diag_layers[want].diag_layer_raw.diag_data_dictionary_spec
                    victim = [d for d in dd.data_object_props if d.odx_id.local_id == ref["id"]]
                    if len(victim) != 1:
                        continue
                    dd.data_object_props.remove(victim[0])
                    st["removals"] += 1
                    try:
                        db.refresh()
                        raised = ""
                    except (OdxError, KeyError) as e:
                        raised = type(e).__name__
                    except Exception as e:  # noqa: BLE001
                        fail("load_raises_foreign_exception", {**base, "exc": type(e).__name__, "phase": "target removed"})
                        continue
                    if after == "Unresolved":
                        st["removal_unresolved"] += 1
                        if not raised:
                            p = db.diag_layers[ref["src"]].diag_layer_raw.requests.RQ.parameters.p
                            fail("dangling_reference_bound", {**base, "bound_to": getattr(p.dop, "long_name", "?"), "phase": "target removed"})
                    elif raised:
                        fail("resolvable_reference_rejected", {**base, "exc": raised, "phase": "target removed", "expected": after})
                    else:
                        p = db.diag_layers[ref["src"]].diag_layer_raw.requests.RQ.parameters.p
                        got = getattr(p.dop, "long_name", "?")
                        if got != after:
                            fail("bound_to_wrong_object", {**base, "bound_to": got, "phase": "target removed", "expected": after})
        else:
            sn = rec["sn"]
            st["sn_loads"] += 1
            db, exc, expected_kind = _load(build_sn(sn))
            base = {"sn": sn, "kind": "sn"}
            must_fail = rec["a"] == "Unresolved" or rec["v"] == "Unresolved"
            st["sn_unresolved"] += must_fail
            if must_fail:
                if db is not None:
                    fail("ambiguous_or_dangling_snref_bound", {**base, "expected": [rec["a"], rec["v"]]})
                elif not expected_kind:
                    fail("load_raises_foreign_exception", {**base, "exc": exc})
                continue
            if db is None:
                fail("resolvable_snref_rejected", {**base, "exc": exc})
                continue
            a, v = db.diag_layers.A, db.diag_layers.V
            pa = a.diag_layer_raw.requests.RQA.parameters.p
            pv = v.diag_layer_raw.requests.RQV.parameters.p
            pg = db.diag_layers.G.diag_layer_raw.requests.RQG.parameters.p if sn["gdop"] else None
            pg2 = db.diag_layers.G2.diag_layer_raw.requests.RQG2.parameters.p
            if pg2.dop.long_name != rec["g2"]:
                fail("snref_bound_to_wrong_object", {**base, "where": "G2", "expected": rec["g2"], "bound_to": pg2.dop.long_name})
            if pg is not None and pg.dop.long_name != rec["g"]:
                fail("snref_bound_to_wrong_object", {**base, "where": "G", "expected": rec["g"], "bound_to": pg.dop.long_name})
            if pa.dop.long_name != rec["a"]:
                fail("snref_bound_to_wrong_object", {**base, "where": "A", "expected": rec["a"], "bound_to": pa.dop.long_name})
            if pv.dop.long_name != rec["v"]:
                fail("snref_bound_to_wrong_object", {**base, "where": "V", "expected": rec["v"], "bound_to": pv.dop.long_name})
            if rec["row"] != "none":
                st["table_rows"] += 1
                try:
                    row = a.diag_data_dictionary_spec.tables.TA.table_rows.RA
                    inc = list(v.diag_layer_raw.diag_data_dictionary_spec.tables.TV.table_rows)
                    if row.dop is None or row.dop.long_name != rec["row"]:
                        fail("snref_bound_to_wrong_object", {**base, "where": "table row of A", "expected": rec["row"],
                                                             "bound_to": getattr(row.dop, "long_name", None)})
                    if len(inc) != 1 or inc[0] is not row:
                        fail("snref_bound_to_wrong_object", {**base, "where": "row included by TABLE-ROW-REF", "expected": "A's row",
                                                             "bound_to": [getattr(x, "short_name", "?") for x in inc]})
                except Exception as e:  # noqa: BLE001
                    fail("snref_bound_to_wrong_object", {**base, "where": "table row of A", "expected": rec["row"],
                                                         "exc": f"{type(e).__name__}: {str(e)[:80]}"})
            # re-targeting to V rebinds the reference of the inherited request to V's view
            st["retargets"] += 1
            try:
                retarget_snrefs(db, v)
                if pa.dop.long_name != rec["v"]:
                    fail("retarget_did_not_rebind", {**base, "expected": rec["v"], "bound_to": pa.dop.long_name})
                if pg is not None and pg.dop.long_name != rec["v"]:
                    fail("retarget_did_not_rebind", {**base, "where": "grandparent", "expected": rec["v"], "bound_to": pg.dop.long_name})
                if pg2.dop.long_name != rec["g2v"]:
                    fail("retarget_did_not_rebind", {**base, "where": "second parent", "expected": rec["g2v"], "bound_to": pg2.dop.long_name})
                retarget_snrefs(db, a)
                if pa.dop.long_name != rec["a"]:
                    fail("retarget_back_did_not_rebind", {**base, "expected": rec["a"], "bound_to": pa.dop.long_name})
            except Exception as e:  # noqa: BLE001
                fail("retarget_raises", {**base, "exc": type(e).__name__})
    return {"fails": fails, "stats": st}


def check(tier: str, replay: Optional[str] = None) -> int:
    import_repo()
    v = Verdicts(PROP, tier)
    res = tlc.run("MC_Links.tla", f"MC_Links_{tier}.cfg", timeout=3000)
    if not res.ok:
        raise tlc.MachineryError(f"TLC failed on Links: {res.violated} {res.errors[:3]}\n{res.stdout[-2000:]}")
    recs = list(res.json_lines())
    print(f"[C10] TLC: {res.distinct} states, {len(recs)} configurations, {res.wall_s:.1f}s", flush=True)
    # what each reference names once its target is gone: the configuration of the family without that definition
    def key(defs: List[List[str]], imports: List[str]) -> str:
        return json.dumps([sorted(map(list, defs)), sorted(imports)])
    index = {key(r["defs"], r["imports"]): {(x["src"], x["id"], x["doc"]): x["target"] for x in r["refs"]}
             for r in recs if r["kind"] == "ids"}
    for r in recs:
        if r["kind"] != "ids":
            continue
        for x in r["refs"]:
            if x["target"] in ("Unresolved", "DontCare"):
                continue
            sib = index.get(key([d for d in r["defs"] if list(d) != [x["target"], x["id"]]], r["imports"]))
            if sib is not None and (x["src"], x["id"], x["doc"]) in sib:
                x["after"] = sib[(x["src"], x["id"], x["doc"])]
    if replay:
        case = json.loads(open(replay).read())
        if case["kind"] == "ids":
            recs = [dict(r, refs=[x for x in r["refs"] if all(x[k_] == case["ref"][k_] for k_ in ("src", "id", "doc"))]) for r in recs
                    if r["kind"] == "ids" and r["defs"] == case["defs"] and r["imports"] == case["imports"]]
        else:
            recs = [r for r in recs if r["kind"] == "sn" and r["sn"] == case["sn"]]
    n = min(16, max(1, len(recs) // 4))
    size = (len(recs) + n - 1) // n
    chunks = [recs[i:i + size] for i in range(0, len(recs), size)]
    with mp.get_context("spawn").Pool(len(chunks), initializer=_init, initargs=(str(REPO),)) as pool:
        outs = pool.map(process, chunks)
    stats: Dict[str, int] = {}
    for o in outs:
        for (clause, c) in o["fails"]:
            v.fail(clause, c)
        for k, x in o["stats"].items():
            stats[k] = stats.get(k, 0) + x
    print(f"[C10] replay: {stats}", flush=True)
    if not replay and (stats["unresolved"] == 0 or stats["imported_targets"] == 0 or stats["retargets"] == 0 or stats["sn_unresolved"] == 0):
        v.vacuous(f"vacuity: {stats}")
    cov = {"states": res.distinct, "transitions": res.generated, "traces_validated_against_impl": stats["id_loads"] + stats["sn_loads"],
           "evaluations": stats["id_loads"] + stats["sn_loads"] + stats["retargets"], "distinct_nontrivial": stats["id_loads"] // 2 + stats["sn_loads"],
           "rule": "every placement of data objects with the same local ID(s) over layers A, S, V (container C1) and E (shared data, "
                   "container C2) x every set of importing layers x every referring layer x ID x DOCREF choice (none / layer / "
                   "container), loaded with both document orders; plus the 16 short-name configurations with re-targeting",
           "exhaustive": True, "replay": stats, "samples": [recs[len(recs) // 2] if recs else {}]}
    return v.finish(cov, ["TLC and the CommunityModules", "my reading of the ODXLINK scoping rules in Links.tla", "KeyError counts as the "
                          "documented error of an unresolvable ODXLINK (odxlink.py raises it through odxraise)",
                          "reference kind exercised: DOP-REF / DOP-SNREF of VALUE parameters (other kinds share resolve()/resolve_snref())"])
