"""C12 - ISO-TP reassembly returns exactly the transmitted telegrams (spec/IsoTp.tla without faults)."""
from typing import Optional

from .. import isotp


def check(tier: str, replay: Optional[str] = None) -> int:
    return isotp.check("C12", tier, replay)
