"""C06 - messages are attributed to exactly the matching services (spec/Dispatch.tla).

TLC enumerates layers (sets of services from an alphabet with shared, nested and empty constant prefixes, differing
lengths, NRC-CONST alternatives) x global negative response options, checks the trie invariant on the design and
emits for every layer the table message -> (services that must / must not be reported).  Every layer is built from
generated ODX XML and every message is decoded by the real DiagLayer.
"""
from __future__ import annotations

import json
import multiprocessing as mp
from typing import Any, Dict, List, Optional, Tuple

from .. import odxgen as og
from .. import tlc
from ..common import REPO, Verdicts, import_repo

PROP = "C06"

# the service alphabet of MC_Dispatch.tla, as ODX: name -> (request consts, n request values, response sid bytes, n response
# values, NRC list or None)
SERVICES: Dict[str, Tuple[List[int], int, List[int], int, Any]] = {
    "Sa": ([0x10], 1, [0x50], 1, None),
    "Sb": ([0x22], 1, [0x62], 1, [0x31, 0x33]),
    "Sc": ([0x22, 0xF1], 2, [0x62, 0xF1], 1, None),
    "Sd": ([0x22, 0xF1, 0x90], 0, [0x62, 0xF1, 0x90], 1, None),
    "Se": ([], 1, [0x40], 1, None),
    "Sf": ([0x31], 2, [0x71], 2, None),
    "Sg": ([0x22], 2, [0x62], 2, None),
    "Sh": ([0x2E, 0xF1], 1, [0x6E, 0xF1], 1, None),      # emitted as ONE 16 bit constant
    "Si": ([0x85], 1, [0xC5], 1, [[0x12], [0x22]]),      # two negative responses with the same constant prefix
    "Sj": ([0x00], 1, [0x40], 1, None),                  # the service identifier 00
    "Sk": ([0xFF], 1, [0xBF], 1, None),                  # the service identifier FF
}
WIDE = {"Sh"}


def _consts(nm: str, bs: List[int]) -> List[str]:
    if nm in WIDE:
        return [og.p_const("c0", (bs[0] << 8) | bs[1], og.dct_standard("A_UINT32", 16), bytepos=0)]
    return [og.p_const8(f"c{i}", b, bytepos=i) for i, b in enumerate(bs)]


def build_layer(names: List[str], gnrs: List[str]) -> Any:
    lay = og.Layer("BASE-VARIANT", "BV", "BV")
    lay.dops.append(og.dop("D.u8", "u8", og.dct_standard("A_UINT32", 8)))
    for nm in names:
        rqc, rqn, rsc, rsn, nrcs = SERVICES[nm]
        ps = _consts(nm, rqc)
        ps += [og.p_value(f"v{i + 1}", "D.u8", bytepos=len(rqc) + i) for i in range(rqn)]
        lay.requests.append(og.request(f"RQ.{nm}", f"RQ_{nm}", ps))
        ps = _consts(nm, rsc)
        if nm == "Sa":   # the response echoes the value byte of the request
            ps.append(og.p_matching("v1", 1, 1, bytepos=len(rsc)))
        else:
            ps += [og.p_value(f"v{i + 1}", "D.u8", bytepos=len(rsc) + i) for i in range(rsn)]
        lay.pos_responses.append(og.response("POS-RESPONSE", f"PR.{nm}", f"PR_{nm}", ps))
        neg = []
        for k, alt in enumerate(nrcs if nrcs and isinstance(nrcs[0], list) else ([nrcs] if nrcs else [])):
            sfx = "" if k == 0 else f"_{k + 1}"
            lay.neg_responses.append(og.response("NEG-RESPONSE", f"NR.{nm}{sfx}", f"NR_{nm}{sfx}", [
                og.p_const8("c0", 0x7F, bytepos=0), og.p_const8("c1", rqc[0], bytepos=1),
                og.p_nrc("nrc", alt, og.dct_standard("A_UINT32", 8), bytepos=2)]))
            neg.append(f"NR.{nm}{sfx}")
        lay.diag_comms.append(og.service(f"DC.{nm}", nm, f"RQ.{nm}", [f"PR.{nm}"], neg))
    for g in gnrs:
        if g == "GNR1":
            lay.gnrs.append(og.response("GLOBAL-NEG-RESPONSE", "GNR.1", "GNR1", [
                og.p_const8("c0", 0x7F, bytepos=0), og.p_matching("rq_sid", 0, 1, bytepos=1), og.p_value("v1", "D.u8", bytepos=2)]))
        else:
            lay.gnrs.append(og.response("GLOBAL-NEG-RESPONSE", "GNR.2", "GNR2", [
                og.p_const8("c0", 0x7F, bytepos=0), og.p_value("v1", "D.u8", bytepos=1), og.p_value("v2", "D.u8", bytepos=2)]))
    db = og.load([og.container("DLC", "DLC", [lay])])
    return db.base_variants[0]


def _init(repo: str) -> None:
    import warnings
    from .. import common
    common.REPO = common.Path(repo)
    common.import_repo()
    warnings.simplefilter("ignore")


def decode(layer: Any, m: bytes, req: Optional[bytes] = None) -> Tuple[Optional[List[Tuple[str, str, Dict[str, Any]]]], str]:
    from odxtools.exceptions import DecodeError
    try:
        msgs = layer.decode(m) if req is None else layer.decode_response(m, req)
        return [(x.service.short_name, x.coding_object.short_name if x.coding_object is not None else "?", dict(x.param_dict))
                for x in msgs], ""
    except DecodeError:
        return None, ""
    except Exception as e:  # noqa: BLE001
        return None, type(e).__name__


def process(recs: List[Dict[str, Any]]) -> Dict[str, Any]:
    fails: List[Tuple[str, Dict[str, Any]]] = []
    st = {"layers": 0, "messages": 0, "must_nonempty": 0, "dontcare": 0, "own": 0, "responses": 0, "groups": 0, "foreign_requests": 0}

    def fail(clause: str, rec: Dict[str, Any], detail: Dict[str, Any]) -> None:
        if len(fails) < 300:
            fails.append((clause, {"machine": "Dispatch", "services": sorted(rec["services"]), "gnrs": list(rec["gnrs"]),
                                   "nservices": len(rec["services"]), **detail}))
    for rec in recs:
        names = sorted(rec["services"])
        try:
            layer = build_layer(names, list(rec["gnrs"]))
        except Exception as e:  # noqa: BLE001
            fail("layer_does_not_load", rec, {"exc": f"{type(e).__name__}: {str(e)[:120]}"})
            continue
        st["layers"] += 1
        for row in rec["table"]:
            m = bytes(row["m"])
            got, exc = decode(layer, m)
            st["messages"] += 1
            st["must_nonempty"] += bool(row["must"])
            st["dontcare"] += len(names) - len(row["must"]) - len(row["mustnot"])
            if exc:
                fail("exception", rec, {"message": m.hex(), "exc": exc})
                continue
            reported = {s for (s, _o, _v) in (got or [])}
            missing = set(row["must"]) - reported
            spurious = reported & set(row["mustnot"])
            if missing:
                fail("service_not_reported", rec, {"message": m.hex(), "missing": sorted(missing), "reported": sorted(reported),
                                                   "empty_prefix": any(not SERVICES[x][0] for x in missing),
                                                   "decode_error": got is None})
            if spurious:
                fail("service_wrongly_reported", rec, {"message": m.hex(), "spurious": sorted(spurious), "reported": sorted(reported)})
        own = {(o["svc"], o["obj"]): bytes(o["m"]) for o in rec["own"]}
        for o in rec["own"]:
            m = bytes(o["m"])
            st["own"] += 1
            if not o["gnr"]:
                got, exc = decode(layer, m)
                hit = [v for (s, ob, v) in (got or []) if s == o["svc"] and ob == o["obj"]]
                if not hit:
                    fail("own_encoding_not_attributed", rec, {"message": m.hex(), "service": o["svc"], "object": o["obj"],
                                                              "got": [(s, ob) for (s, ob, _v) in (got or [])], "exc": exc,
                                                              "empty_prefix": not SERVICES[o["svc"]][0]})
                elif any(v != 5 for k, v in hit[0].items() if k.startswith("v")):
                    fail("own_encoding_values", rec, {"message": m.hex(), "service": o["svc"], "values": hit[0]})
                # a response is found through the request that triggered it
                if not o["obj"].startswith("RQ_"):
                    req = own[(o["svc"], "RQ_" + o["svc"])]
                    got2, exc2 = decode(layer, m, req)
                    st["responses"] += 1
                    if not any(s == o["svc"] and ob == o["obj"] for (s, ob, _v) in (got2 or [])):
                        fail("response_not_found_through_request", rec, {"response": m.hex(), "request": req.hex(),
                                                                         "service": o["svc"], "object": o["obj"], "exc": exc2,
                                                                         "got": [(s, ob) for (s, ob, _v) in (got2 or [])],
                                                                         "empty_prefix": not SERVICES[o["svc"]][0]})
        # ... and not through the request of a service none of whose objects can match it (a global negative response that
        # echoes another request's first byte is not "applicable")
        mustnot = {bytes(row["m"]): set(row["mustnot"]) for row in rec["table"]}
        for o in rec["own"]:
            m = bytes(o["m"])
            if o["obj"].startswith("RQ_"):
                continue
            for t in names:
                if t == o["svc"] or t not in mustnot.get(m, set()):
                    continue
                req = own[(t, "RQ_" + t)]
                got3, exc3 = decode(layer, m, req)
                st["foreign_requests"] += 1
                spurious3 = {s_ for (s_, _ob, _v) in (got3 or [])} & mustnot[m]
                if spurious3:
                    fail("response_attributed_through_foreign_request", rec,
                         {"response": m.hex(), "request": req.hex(), "response_of": o["svc"], "object": o["obj"],
                          "spurious": sorted(spurious3), "exc": exc3})
        for g in rec["groups"]:
            st["groups"] += 1
            try:
                real = sorted(s.short_name for s in layer.service_groups[g["sid"]])
            except Exception as e:  # noqa: BLE001
                fail("service_groups", rec, {"sid": g["sid"], "expected": sorted(g["svcs"]), "exc": f"{type(e).__name__}: {str(e)[:80]}"})
                continue
            if real != sorted(g["svcs"]):
                fail("service_groups", rec, {"sid": g["sid"], "expected": sorted(g["svcs"]), "got": real})
    return {"fails": fails, "stats": st}


def check(tier: str, replay: Optional[str] = None) -> int:
    import_repo()
    v = Verdicts(PROP, tier)
    if replay and json.loads(open(replay).read()).get("machine") == "Snoop":
        from .. import snoop
        snoop.check_into(v, PROP, json.loads(open(replay).read()))
        return v.finish({"states": 1, "transitions": 1, "traces_validated_against_impl": 1, "samples": []}, ["replay of one snoop session"])
    res = tlc.run("MC_Dispatch.tla", f"MC_Dispatch_{tier}.cfg", timeout=3000)
    if not res.ok:
        raise tlc.MachineryError(f"TLC failed on Dispatch: {res.violated} {res.errors[:3]}\n{res.stdout[-2000:]}")
    recs = list(res.json_lines())
    print(f"[C06] TLC: {res.distinct} states, {len(recs)} layers, {res.wall_s:.1f}s", flush=True)
    if replay:
        case = json.loads(open(replay).read())
        recs = [r for r in recs if sorted(r["services"]) == case["services"] and list(r["gnrs"]) == case["gnrs"]]
        if not recs:
            raise tlc.MachineryError("the layer of the replay file is not in the model")
    n = min(16, max(1, len(recs) // 4))
    size = (len(recs) + n - 1) // n
    chunks = [recs[i:i + size] for i in range(0, len(recs), size)]
    with mp.get_context("spawn").Pool(len(chunks), initializer=_init, initargs=(str(REPO),)) as pool:
        outs = pool.map(process, chunks)
    stats: Dict[str, int] = {}
    for o in outs:
        for (clause, c) in o["fails"]:
            v.fail(clause, c)
        for k, x in o["stats"].items():
            stats[k] = stats.get(k, 0) + x
    print(f"[C06] replay: {stats}", flush=True)
    # the session machine of the snoop tool (spec/Snoop.tla): a response is recognized through the request in context, only
    from .. import snoop
    if not replay:
        stats["snoop"] = snoop.check_into(v, PROP)    # type: ignore[assignment]
        print(f"[C06] snoop sessions: {stats['snoop']}", flush=True)
    if stats["must_nonempty"] == 0 or stats["dontcare"] == 0 or stats["responses"] == 0:
        v.vacuous(f"vacuity: {stats}")
    cov = {"states": res.distinct, "transitions": res.generated, "traces_validated_against_impl": stats["layers"],
           "evaluations": stats["messages"] + stats["own"] + stats["responses"] + stats["groups"],
           "distinct_nontrivial": stats["messages"],
           "rule": "every set of <= 2 (quick) / 3 (thorough) services of the alphabet x 3 global-negative-response options; per "
                   "layer every byte string up to length 3 over the alphabet of constants plus every object's own encoding, "
                   "decoded by the real DiagLayer; distinct = (layer, message) pairs",
           "exhaustive": True, "replay": stats,
           "samples": [{"services": sorted(recs[len(recs) // 2]["services"]), "gnrs": recs[len(recs) // 2]["gnrs"],
                        "row": recs[len(recs) // 2]["table"][0]}]}
    return v.finish(cov, ["TLC and the CommunityModules", "three-valued matching: a coding object satisfied by a proper prefix "
                          "of the message (trailing bytes) imposes nothing", "the ODX emitter and the library's loader"])
