"""C14 - variant identification selects the first candidate whose pattern matches.

spec/VariantMatcher.tla: TLC builds every candidate list within the bounds, picks every ECU and cache setting, runs
the implementation-shaped request loop and checks result = FirstMatch etc. on the design. Every terminal state is
emitted as JSON and replayed into the real VariantMatcher working on EcuVariant objects loaded from generated ODX
XML (direction A).  Real executions (the replays plus random larger configurations) are recorded and validated by
TLC against VariantMatcherTrace.tla (direction B), which evaluates the C14 monitors on what the code did.
"""
from __future__ import annotations

import json
import random
from typing import Any, Dict, List, Optional, Tuple

from .. import odxgen as og
from .. import tlc
from ..common import Verdicts, import_repo, seed

PROP = "C14"

ALL_PARAMS = [(s, e, t) for s in (1, 2) for e in (1, 2) for t in ("top", "struct", "field")]
KINDS = [{"id": 1, "sp": 1, "f": [1]}, {"id": 2, "sp": 1, "f": [1, 2]}, {"id": 1, "sp": 2, "f": []}, {"err": True},
         {"id": 2, "sp": 2, "f": [2, 2]}]
# the value 0 (a value that is "false" in Python) is expected and sent like any other
KIND0 = {"id": 0, "sp": 0, "f": [0, 1]}
ZERO_PARAMS = [(1, 0, "top"), (2, 0, "struct"), (1, 0, "field")]
TARGET = {"top": ("snref", "id"), "struct": ("snpathref", "st.p"), "field": ("snpathref", "fl.p")}

MODELS = {
    "quick": [
        # name, MaxVariants, MaxPatterns, MaxParams, params, kinds
        ("two_variants", 2, 1, 2, [(1, 1, "top"), (1, 2, "top"), (2, 1, "field"), (2, 2, "field"), (1, 1, "struct"),
                                   (2, 2, "struct")], KINDS[:4]),
        ("two_patterns", 1, 2, 2, [(1, 1, "top"), (2, 2, "field"), (1, 2, "struct"), (2, 1, "top")], KINDS[:4]),
        ("three_variants", 3, 1, 1, ALL_PARAMS[:8], KINDS[:4]),
        ("zero_values", 2, 1, 1, ZERO_PARAMS + [(1, 1, "top"), (2, 1, "struct")], [KIND0, KINDS[0], KINDS[3]]),
    ],
    "thorough": [
        ("two_variants", 2, 1, 2, ALL_PARAMS, KINDS),
        ("two_patterns", 1, 2, 2, ALL_PARAMS[:8], KINDS),
        ("three_variants", 3, 1, 1, ALL_PARAMS, KINDS),
        ("two_by_two", 2, 2, 1, ALL_PARAMS[:6], KINDS[:4]),
        ("zero_values", 2, 1, 2, ZERO_PARAMS + [(1, 1, "top"), (2, 1, "struct"), (2, 1, "field")], [KIND0, KINDS[0], KINDS[1], KINDS[3]]),
    ],
}


def tla_param(p: Tuple[int, int, str]) -> str:
    return f'[svc |-> {p[0]}, exp |-> {p[1]}, tgt |-> "{p[2]}"]'


def tla_kind(k: Dict[str, Any]) -> str:
    if "err" in k:
        return "[err |-> TRUE]"
    return f'[id |-> {k["id"]}, sp |-> {k["sp"]}, f |-> <<{", ".join(map(str, k["f"]))}>>]'


def write_mc(wd: Any, maxv: int, maxp: int, maxm: int, params: List[Any], kinds: List[Any]) -> Tuple[str, str]:
    (wd / "MCVM.tla").write_text(
        "---- MODULE MCVM ----\nEXTENDS VariantMatcher, Json\n"
        f"MCParams == {{{', '.join(tla_param(p) for p in params)}}}\n"
        f"MCKinds == {{{', '.join(tla_kind(k) for k in kinds)}}}\n"
        "Emit == phase = \"done\" => PrintT(ToJson([cands |-> cands, ecu |-> <<ecu[1], ecu[2]>>, cache |-> cache,\n"
        "           result |-> result, reqs |-> reqs, first |-> FirstMatch(cands, ecu)]))\n====\n")
    (wd / "MCVM.cfg").write_text(
        f"SPECIFICATION Spec\nCONSTANTS\n  MaxVariants = {maxv}\n  MaxPatterns = {maxp}\n  MaxParams = {maxm}\n"
        "  Services = {1, 2}\n  Params <- MCParams\n  Kinds <- MCKinds\n"
        "INVARIANT ResultIsFirstMatch\nINVARIANT PendingUntilLoopEnds\nINVARIANT OnlyIdentRequests\n"
        "INVARIANT NoDuplicateRequestWithCache\nINVARIANT CursorInRange\nINVARIANT Emit\n")
    return "MCVM.tla", "MCVM.cfg"


# ---------------------------------------------------------------------------------------
# the real side

def variant_key(v: List[List[Dict[str, Any]]]) -> str:
    return json.dumps(v, sort_keys=True)


def build_db(variants: List[List[List[Dict[str, Any]]]]) -> Dict[str, Any]:
    """One database holding a base variant with the identification services and one ECU variant per distinct
    pattern list; returns variant key -> EcuVariant object."""
    bv = og.Layer("BASE-VARIANT", "BV", "BV")
    bv.dops.append(og.dop("DOP.u8", "u8", og.dct_standard("A_UINT32", 8)))
    bv.structures.append(og.structure("ST.item", "item", [og.p_value("p", "DOP.u8")]))
    bv.eopdu_fields.append(og.end_of_pdu_field("EOP.items", "items", "ST.item"))
    for s in (1, 2):
        bv.requests.append(og.request(f"RQ.s{s}", f"RQ_s{s}", [og.p_const8("sid", 0x22, bytepos=0),
                                                                   og.p_const8("did_hi", 0x10, bytepos=1),
                                                                   og.p_const8("did_lo", s, bytepos=2)]))
        bv.pos_responses.append(og.response("POS-RESPONSE", f"PR.s{s}", f"PR_s{s}", [
            og.p_const8("sid", 0x62, bytepos=0), og.p_const8("did_hi", 0x10, bytepos=1), og.p_const8("did_lo", s, bytepos=2),
            og.p_value("id", "DOP.u8", bytepos=3), og.p_value("st", "ST.item", bytepos=4),
            og.p_value("fl", "EOP.items", bytepos=5)]))
        bv.neg_responses.append(og.response("NEG-RESPONSE", f"NR.s{s}", f"NR_s{s}", [
            og.p_const8("sid", 0x7F, bytepos=0), og.p_const8("rq_sid", 0x22, bytepos=1), og.p_value("nrc", "DOP.u8", bytepos=2)]))
        pos = [f"PR.s{s}"]
        if s == 2:
            # a second response object that also decodes the reply but lacks the identification parameters, listed
            # first: the values must be looked for in every response object that can decode the reply
            bv.pos_responses.append(og.response("POS-RESPONSE", "PR.s2echo", "PR_s2echo", [
                og.p_const8("sid", 0x62, bytepos=0), og.p_const8("did_hi", 0x10, bytepos=1),
                og.p_const8("did_lo", s, bytepos=2)]))
            pos = ["PR.s2echo", "PR.s2"]
        bv.diag_comms.append(og.service(f"DC.s{s}", f"s{s}", f"RQ.s{s}", pos, [f"NR.s{s}"]))
    bv.gnrs.append(og.response("GLOBAL-NEG-RESPONSE", "GNR.any", "GNR_any", [
        og.p_const8("sid", 0x7F, bytepos=0), og.p_value("rq_sid", "DOP.u8", bytepos=1), og.p_value("nrc", "DOP.u8", bytepos=2)]))
    layers = [bv]
    keys: List[str] = []
    for n, v in enumerate(variants):
        ev = og.Layer("ECU-VARIANT", f"EV.{n}", f"EV{n}")
        pats = []
        for p in v:
            mps = []
            for mp in p:
                kind, path = TARGET[mp["tgt"]]
                mps.append(og.matching_parameter(str(mp["exp"]), f"s{mp['svc']}",
                                                 out_snref=path if kind == "snref" else None,
                                                 out_snpathref=path if kind == "snpathref" else None))
            pats.append(mps)
        ev.patterns = og.ecu_variant_patterns(pats)
        if n % 2 == 1:
            # every other candidate overrides the inherited identification services with its own objects: the same
            # requests byte for byte, so with the cache on they must not be sent again
            for sv in (1, 2):
                ev.requests.append(og.request(f"EV{n}.RQ.s{sv}", f"RQ_s{sv}", [og.p_const8("sid", 0x22, bytepos=0),
                                                                                og.p_const8("did_hi", 0x10, bytepos=1),
                                                                                og.p_const8("did_lo", sv, bytepos=2)]))
                ev.diag_comms.append(og.service(f"EV{n}.DC.s{sv}", f"s{sv}", f"EV{n}.RQ.s{sv}",
                                                ["PR.s2echo", "PR.s2"] if sv == 2 else [f"PR.s{sv}"], [f"NR.s{sv}"]))
        ev.parent_refs.append(og.parent_ref("BV", "BASE-VARIANT", "DLC"))
        layers.append(ev)
        keys.append(variant_key(v))
    db = og.load([og.container("DLC", "DLC", layers)])
    return {k: db.ecu_variants[f"EV{n}"] for n, k in enumerate(keys)}


def build_db_bv(variants: List[List[List[Dict[str, Any]]]]) -> Dict[str, Any]:
    """The same candidates as BASE-VARIANTs (each with at most one BASE-VARIANT-PATTERN) below a functional group that holds
    the identification services; service 1 is to be addressed physically, service 2 functionally."""
    fg = og.Layer("FUNCTIONAL-GROUP", "FG", "FG")
    fg.dops.append(og.dop("DOP.u8", "u8", og.dct_standard("A_UINT32", 8)))
    fg.structures.append(og.structure("ST.item", "item", [og.p_value("p", "DOP.u8")]))
    fg.eopdu_fields.append(og.end_of_pdu_field("EOP.items", "items", "ST.item"))
    for s_ in (1, 2):
        fg.requests.append(og.request(f"RQ.s{s_}", f"RQ_s{s_}", [og.p_const8("sid", 0x22, bytepos=0),
                                                                    og.p_const8("did_hi", 0x10, bytepos=1),
                                                                    og.p_const8("did_lo", s_, bytepos=2)]))
        fg.pos_responses.append(og.response("POS-RESPONSE", f"PR.s{s_}", f"PR_s{s_}", [
            og.p_const8("sid", 0x62, bytepos=0), og.p_const8("did_hi", 0x10, bytepos=1), og.p_const8("did_lo", s_, bytepos=2),
            og.p_value("id", "DOP.u8", bytepos=3), og.p_value("st", "ST.item", bytepos=4),
            og.p_value("fl", "EOP.items", bytepos=5)]))
        fg.neg_responses.append(og.response("NEG-RESPONSE", f"NR.s{s_}", f"NR_s{s_}", [
            og.p_const8("sid", 0x7F, bytepos=0), og.p_const8("rq_sid", 0x22, bytepos=1), og.p_value("nrc", "DOP.u8", bytepos=2)]))
        fg.diag_comms.append(og.service(f"DC.s{s_}", f"s{s_}", f"RQ.s{s_}", [f"PR.s{s_}"], [f"NR.s{s_}"]))
    layers = [fg]
    keys: List[str] = []
    for n, v in enumerate(variants):
        bv = og.Layer("BASE-VARIANT", f"BV.{n}", f"BV{n}")
        if v:
            mps = []
            for mp in v[0]:
                kind, path = TARGET[mp["tgt"]]
                mps.append(og.matching_parameter(str(mp["exp"]), f"s{mp['svc']}",
                                                 out_snref=path if kind == "snref" else None,
                                                 out_snpathref=path if kind == "snpathref" else None,
                                                 base_variant=True, physical=(mp["svc"] == 1)))
            bv.patterns = og.base_variant_pattern(mps)
        bv.parent_refs.append(og.parent_ref("FG", "FUNCTIONAL-GROUP", "DLC"))
        layers.append(bv)
        keys.append(variant_key(v))
    db = og.load([og.container("DLC", "DLC", layers)])
    return {k: db.base_variants[f"BV{n}"] for n, k in enumerate(keys)}


def ecu_response(kind: Dict[str, Any], svc: int) -> bytes:
    if "err" in kind:
        return bytes([0x7F, 0x22, 0x31])
    return bytes([0x62, 0x10, svc, kind["id"], kind["sp"]] + list(kind["f"]))


def run_real(objs: Dict[str, Any], cands: List[Any], ecu: List[Dict[str, Any]], cache: bool) -> Dict[str, Any]:
    from odxtools.variantmatcher import VariantMatcher
    clist = [objs[variant_key(v)] for v in cands]
    reqs: List[int] = []
    phys: List[bool] = []
    exc = ""
    result = -1
    try:
        m = VariantMatcher(clist, use_cache=cache)
        for (_phys, rq) in m.request_loop():
            rq = bytes(rq)
            svc = rq[2] if len(rq) == 3 and rq[:2] == b"\x22\x10" else 0
            reqs.append(svc)
            phys.append(bool(_phys))
            if len(reqs) > 200:
                raise RuntimeError("request loop does not terminate")
            m.evaluate(ecu_response(ecu[svc - 1], svc) if svc in (1, 2) else b"\x7f\x22\x11")
        if m.has_match():
            mv = m.matching_variant
            result = next((i + 1 for i, c in enumerate(clist) if c is mv), -2)
        else:
            result = 0 if m.matching_variant is None else -3
    except Exception as e:  # noqa: BLE001
        exc = type(e).__name__
    return {"reqs": reqs, "result": result, "exc": exc, "phys": phys}


def to_events(tid: int, cands: Any, ecu: Any, cache: bool, ob: Dict[str, Any]) -> List[Dict[str, Any]]:
    evs: List[Dict[str, Any]] = [{"tid": tid, "ev": "init", "cands": cands, "ecu": ecu, "cache": cache}]
    evs += [{"tid": tid, "ev": "request", "svc": s} for s in ob["reqs"]]
    evs.append({"tid": tid, "ev": "finish", "result": ob["result"], "exc": ob["exc"]})
    return evs


def validate(runs: List[Tuple[Any, Any, bool, Dict[str, Any]]], v: Verdicts, stats: Dict[str, Any], origin: str) -> None:
    if not runs:
        return
    wd = tlc.workdir("vmtrace")
    try:
        tf = wd / "trace.ndjson"
        n = 0
        starts: Dict[int, int] = {}
        with open(tf, "w") as f:
            for tid, (cands, ecu, cache, ob) in enumerate(runs, 1):
                starts[tid] = n + 1
                for ev in to_events(tid, cands, ecu, cache, ob):
                    f.write(json.dumps(ev) + "\n")
                    n += 1
        (wd / "T.cfg").write_text("SPECIFICATION TraceSpec\nCONSTANTS\n  MaxVariants = 6\n  MaxPatterns = 4\n  MaxParams = 4\n"
                                  "  Services = {1, 2}\n  Params = {}\n  Kinds = {0}\nCHECK_DEADLOCK FALSE\n")
        res = tlc.run("VariantMatcherTrace.tla", str(wd / "T.cfg"), workers=1, env={"TRACE_FILE": str(tf)}, timeout=3000)
        if not res.ok or res.depth < n + 1:
            raise tlc.MachineryError(f"VariantMatcher trace not consumed: depth {res.depth} for {n} lines; {res.errors[:3]}\n"
                                     f"{res.stdout[-2000:]}")
        stats["trace_lines"] += n
        stats["traces_validated"] += len(runs)
        stats["trace_tlc_s"] = round(stats.get("trace_tlc_s", 0) + res.wall_s, 1)
        seen = set()
        for val in res.values():
            if isinstance(val, tuple) and len(val) == 4 and val[0] in ("V", "D"):
                tid = int(val[1])
                if (tid, val[0]) in seen:
                    continue
                seen.add((tid, val[0]))
                cands, ecu, cache, ob = runs[tid - 1]
                case = {"machine": "VariantMatcher", "origin": origin, "cands": cands, "ecu": ecu, "cache": cache,
                        "observed": ob, "nvariants": len(cands)}
                if val[0] == "V":
                    v.fail(str(val[3]), case)
                else:
                    v.diverge(str(val[3]), case)
    finally:
        tlc.rmtree(wd)


def random_config(rng: random.Random) -> Tuple[Any, Any, bool]:
    cands = []
    for _ in range(rng.randint(0, 4)):
        pats = []
        for _ in range(rng.randint(0, 3)):
            pats.append([{"svc": s, "exp": e, "tgt": t} for (s, e, t) in
                         [rng.choice(ALL_PARAMS + ZERO_PARAMS) for _ in range(rng.randint(1, 3))]])
        cands.append(pats)
    ecu = [rng.choice(KINDS + [KIND0]), rng.choice(KINDS + [KIND0])]
    return cands, ecu, rng.random() < 0.5


def check(tier: str, replay: Optional[str] = None) -> int:
    import_repo()
    v = Verdicts(PROP, tier)
    rng = random.Random(seed() + 14)
    stats: Dict[str, Any] = {"behaviours": 0, "nonconforming": 0, "trace_lines": 0, "traces_validated": 0, "dbs": 0,
                             "distinct_variants": 0}
    if replay:
        case = json.loads(open(replay).read())
        objs = build_db([c for c in case["cands"]])
        ob = run_real(objs, case["cands"], case["ecu"], case["cache"])
        validate([(case["cands"], case["ecu"], case["cache"], ob)], v, stats, "replay")
        return v.finish({"states": 1, "transitions": 1, "traces_validated_against_impl": 1, "samples": [case["cands"]]},
                        ["replay of one configuration"])
    states = transitions = 0
    design: Dict[str, Any] = {}
    samples: List[Any] = []
    suspects: List[Tuple[Any, Any, bool, Dict[str, Any]]] = []
    sampled: List[Tuple[Any, Any, bool, Dict[str, Any]]] = []
    witnesses = {"match_not_first_candidate": 0, "cache_hit_runs": 0, "no_match": 0, "field_any_item": 0}
    for (name, maxv, maxp, maxm, params, kinds) in MODELS[tier]:
        wd = tlc.workdir("vm")
        try:
            mod, cfg = write_mc(wd, maxv, maxp, maxm, params, kinds)
            res = tlc.run(mod, cfg, cwd=wd, coverage=False, timeout=3000)
            if not res.ok or res.distinct == 0:
                raise tlc.MachineryError(f"TLC failed on VariantMatcher ({name}): {res.violated} {res.errors[:3]}\n"
                                         f"{res.stdout[-3000:]}")
            recs = list(res.json_lines())
            print(f"[C14] TLC {name}: {res.distinct} distinct, {res.generated} generated, {len(recs)} behaviours, "
                  f"{res.wall_s:.1f}s", flush=True)
            design[name] = {"distinct": res.distinct, "generated": res.generated, "behaviours": len(recs),
                            "tlc_s": round(res.wall_s, 1),
                            "constants": f"MaxVariants={maxv} MaxPatterns={maxp} MaxParams={maxm} |Params|={len(params)} "
                                         f"|Kinds|={len(kinds)}"}
            states += res.distinct
            transitions += res.generated
            if not recs:
                raise tlc.MachineryError("no terminal states emitted")
            distinct: Dict[str, Any] = {}
            for r in recs:
                for var in r["cands"]:
                    distinct.setdefault(variant_key(var), var)
            try:
                objs = build_db(list(distinct.values()))
                objs_bv = build_db_bv([var for var in distinct.values() if len(var) <= 1])
            except Exception as e:  # noqa: BLE001
                v.fail("candidates_do_not_load", {"machine": "VariantMatcher", "model": name, "exc": f"{type(e).__name__}: {str(e)[:160]}"})
                continue
            stats["dbs"] += 1
            stats["distinct_variants"] += len(distinct)
            for r in recs:
                ob = run_real(objs, r["cands"], r["ecu"], r["cache"])
                stats["behaviours"] += 1
                if r["result"] != r["first"]:
                    raise tlc.MachineryError("model result differs from FirstMatch although the invariant held")
                if r["result"] > 1:
                    witnesses["match_not_first_candidate"] += 1
                if r["result"] == 0:
                    witnesses["no_match"] += 1
                if r["cache"] and len(r["reqs"]) < sum(len(p) for c in r["cands"] for p in c):
                    witnesses["cache_hit_runs"] += 1
                if ob["exc"] or ob["result"] != r["result"] or ob["reqs"] != r["reqs"]:
                    stats["nonconforming"] += 1
                    if len(suspects) < 3000:
                        suspects.append((r["cands"], r["ecu"], r["cache"], ob))
                elif rng.random() < (0.01 if tier == "quick" else 0.003):
                    sampled.append((r["cands"], r["ecu"], r["cache"], ob))
                # the same candidates as base variants (one pattern at most): same result, same requests, and the addressing
                # each request asks for is the one its matching parameters state
                if all(len(c) <= 1 for c in r["cands"]):
                    ob2 = run_real(objs_bv, r["cands"], r["ecu"], r["cache"])
                    stats["base_variant_runs"] = stats.get("base_variant_runs", 0) + 1
                    if ob2["exc"] or ob2["result"] != r["result"] or ob2["reqs"] != r["reqs"]:
                        stats["nonconforming"] += 1
                        if len(suspects) < 3000:
                            suspects.append((r["cands"], r["ecu"], r["cache"], ob2))
                    elif ob2["phys"] != [sv == 1 for sv in ob2["reqs"]]:
                        v.diverge("addressing_of_identification_request", {"cands": r["cands"], "reqs": ob2["reqs"], "phys": ob2["phys"]})
            if not samples:
                r = recs[len(recs) // 2]
                samples.append({"model": name, "cands": r["cands"], "ecu": r["ecu"], "cache": r["cache"],
                                "expected_result": r["result"], "expected_requests": r["reqs"]})
        finally:
            tlc.rmtree(wd)
    print(f"[C14] replay: {stats} witnesses={witnesses}", flush=True)
    if min(witnesses["match_not_first_candidate"], witnesses["cache_hit_runs"], witnesses["no_match"]) == 0:
        v.vacuous(f"vacuity: {witnesses}")
    validate(suspects, v, stats, "model-replay")
    validate(sampled, v, stats, "model-replay-sample")
    # beyond the modelled bounds
    n = 400 if tier == "quick" else 4000
    cfgs = [random_config(rng) for _ in range(n)]
    distinct = {}
    for (cands, _e, _c) in cfgs:
        for var in cands:
            distinct.setdefault(variant_key(var), var)
    objs = build_db(list(distinct.values()))
    runs = [(c, e, k, run_real(objs, c, e, k)) for (c, e, k) in cfgs]
    validate(runs, v, stats, "random")
    samples.append({"random": {"cands": cfgs[0][0], "ecu": cfgs[0][1], "cache": cfgs[0][2], "observed": runs[0][3]}})
    cov = {"states": states, "transitions": transitions,
           "traces_validated_against_impl": stats["traces_validated"] + stats["behaviours"],
           "evaluations": stats["behaviours"] + n, "distinct_nontrivial": stats["behaviours"],
           "rule": "every terminal state of the TLC model (candidate list x ECU function x cache setting) replayed into a "
                   "real VariantMatcher on EcuVariants loaded from generated ODX; result and request sequence compared; "
                   "random larger configurations (<= 4 variants, <= 3 patterns, <= 3 parameters) judged by TLC's monitors",
           "exhaustive": True, "design": design, "replay": stats, "witnesses": witnesses, "samples": samples}
    return v.finish(cov, ["TLC and the CommunityModules", "the ODX emitter harness/odxgen.py and the library's loader",
                          "the simulated ECU in harness/checks/c14.py (request 22 10 0s -> response bytes)"])
