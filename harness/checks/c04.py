"""C04 - the encoder never silently misrepresents its input (codec model with the wrong-value alphabets)."""
from typing import Optional

from .. import codec_run


def check(tier: str, replay: Optional[str] = None) -> int:
    return codec_run.check_c04(tier, replay)
