"""C13 - lossy or malformed CAN traffic never crashes or fabricates telegrams (spec/IsoTp.tla with fault actions)."""
from typing import Optional

from .. import isotp


def check(tier: str, replay: Optional[str] = None) -> int:
    return isotp.check("C13", tier, replay)
