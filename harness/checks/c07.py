"""C07 - compu methods compute the mathematically specified conversion (spec/Compu.tla, exact rationals)."""
from __future__ import annotations

import json
from collections import Counter
from typing import Any, Dict, List, Optional

from .. import compu, tlc
from ..common import Verdicts, import_repo

PROP = "C07"
CLAUSES = {"exception", "valid_internal", "i2p_raises", "i2p", "image_valid", "i2p2i", "valid_phys_converts",
           "moncont_encodes", "p2i", "valid_physical"}


def check(tier: str, replay: Optional[str] = None) -> int:
    import_repo()
    v = Verdicts(PROP, tier)
    if replay:
        case = json.loads(open(replay).read())
        rec = case["record"]
        real = compu.build([rec["cm"]])[0]
        for (clause, detail) in compu.compare(rec["cm"], rec, real):
            v.fail(clause, {"machine": "Compu", **compu.shape(rec["cm"]), "detail": detail, "record": rec})
        return v.finish({"states": 1, "transitions": 1, "traces_validated_against_impl": 1, "samples": [rec["cm"]]},
                        ["replay of one configuration"])
    res, recs = compu.run_model(tier)
    print(f"[C07] TLC: {res.distinct} states, {len(recs)} configurations, {res.wall_s:.1f}s", flush=True)
    reals = compu.build([r["cm"] for r in recs])
    evals = 0
    per_clause: Counter = Counter()
    cats: Counter = Counter()
    inj = mon = 0
    for rec, real in zip(recs, reals):
        cm = rec["cm"]
        cats[cm["cat"]] += 1
        inj += bool(rec["injective"])
        mon += bool(rec["moncont"])
        evals += len(rec["itab"]) + len(rec["ptab"]) + len(rec["ttab"])
        seen = set()
        for (clause, detail) in compu.compare(cm, rec, real):
            per_clause[clause] += 1
            if clause in seen:
                continue   # one case per configuration and clause
            seen.add(clause)
            slim = {"cm": cm, "injective": rec["injective"], "moncont": rec["moncont"], "itab": rec["itab"],
                    "ptab": rec["ptab"], "ttab": rec["ttab"]}
            v.fail(clause, {"machine": "Compu", **compu.shape(cm), "detail": detail, "record": slim})
    print(f"[C07] clause failures: {dict(per_clause)}", flush=True)
    if inj == 0 or mon == 0 or len(cats) < 8:
        v.vacuous(f"vacuity: injective={inj} moncont={mon} categories={dict(cats)}")
    cov = {"states": res.distinct, "transitions": res.generated, "traces_validated_against_impl": len(recs),
           "evaluations": evals, "distinct_nontrivial": len(recs),
           "rule": "one TLC state per compu method configuration (category x type pair x coefficients x limits x interval "
                   "types); each is built through ODX XML and every probe value of its table is compared with the exact "
                   "rational reference (integers: membership in Nearest)",
           "exhaustive": True, "configurations_per_category": dict(cats), "injective_configurations": inj,
           "monotone_continuous_configurations": mon, "clause_failures": dict(per_clause),
           "samples": [{"cm": recs[len(recs) // 3]["cm"], "first_rows": recs[len(recs) // 3]["itab"][:3]}]}
    return v.finish(cov, ["TLC and the CommunityModules", "my transcription of MCD-2 D 7.3.6.6 in Compu.tla",
                          "float results are compared with the exact rational within relative 1e-9",
                          "the ODX emitter and the library's loader"])
