"""C11 - writing a database to PDX and loading it back preserves it (spec/Pdx.tla, spec/PdxTrace.tla).

Part A (specification -> code): TLC enumerates, for several file sets, every order of the members and the three entry points
(archive, directory, list of files) of the loader machine of Pdx.tla and checks LoaderIsCanon / WriteThenLoad / WriteIsStable on
the design; every behaviour is replayed into the real load_pdx_file / load_directory / load_files with generated ODX documents
and the loaded database compared with the declarative meaning Canon (documents, auxiliary files by base name, name from the
catalogue) and with the structural digest and behaviour of the reference load.

Part B (code -> specification): sessions on the real writer and loaders - plain round trip, every single-attribute perturbation
(each dataclass field with a simple type of each element class present in the base databases, strings with XML metacharacters),
two databases written in one process - are recorded (contents, archive members and behaviours interned) and validated by TLC
against PdxTrace.tla, which demands that writing is a function of the content and loading inverts it.
"""
from __future__ import annotations

import hashlib
import json
import multiprocessing as mp
import os
import random
import shutil
from typing import Any, Dict, List, Optional, Tuple

from .. import layers as hl
from .. import odxgen as og
from .. import pdx
from .. import tlc
from ..common import REPO, Verdicts, import_repo, seed

PROP = "C11"

# fields the parser fills from the context (tag name, type of the enclosing data object), not from an attribute of their own:
# changing them alone yields an inconsistent object, not a different document
DERIVED = {
    ("IdenticalCompuMethod", "physical_type"), ("IdenticalCompuMethod", "internal_type"),
    ("LinearCompuMethod", "physical_type"), ("LinearCompuMethod", "internal_type"),
    ("ScaleLinearCompuMethod", "physical_type"), ("ScaleLinearCompuMethod", "internal_type"),
    ("TexttableCompuMethod", "physical_type"), ("TexttableCompuMethod", "internal_type"),
    ("TabIntpCompuMethod", "physical_type"), ("TabIntpCompuMethod", "internal_type"),
    ("RatFuncCompuMethod", "physical_type"), ("RatFuncCompuMethod", "internal_type"),
    ("CompuCodeCompuMethod", "physical_type"), ("CompuCodeCompuMethod", "internal_type"),
    ("CompuMethod", "physical_type"), ("CompuMethod", "internal_type"),
    ("Limit", "value_type"), ("InternalConstr", "value_type"), ("ScaleConstr", "value_type"), ("CompuConst", "data_type"),
    ("CompuScale", "domain_type"), ("CompuScale", "range_type"), ("CompuRationalCoeffs", "value_type"),
    ("CompuInverseValue", "data_type"), ("CompuDefaultValue", "data_type"),
    ("ProtocolRaw", "variant_type"), ("FunctionalGroupRaw", "variant_type"), ("BaseVariantRaw", "variant_type"),
    ("EcuVariantRaw", "variant_type"), ("EcuSharedDataRaw", "variant_type"), ("Response", "response_type"),
    ("IdenticalCompuMethod", "category"), ("LinearCompuMethod", "category"), ("ScaleLinearCompuMethod", "category"),
    ("TexttableCompuMethod", "category"), ("TabIntpCompuMethod", "category"), ("RatFuncCompuMethod", "category"),
    ("CompuCodeCompuMethod", "category"), ("ComparamSubset", "category"),
    # an XML choice: OUT-PARAM-IF-SNREF or OUT-PARAM-IF-SNPATHREF (the base databases use the former)
    ("MatchingParameter", "out_param_if_snpathref"), ("MatchingBaseVariantParameter", "out_param_if_snpathref"),
}


# reference lists whose resolved objects are kept in a dataclass field of their own (emptying the references alone is inconsistent)
DERIVED_LISTS = {("EnvironmentDataDescription", "env_data_refs")}

# element text the parser reads with Element.text: an empty element and an absent value are the same document
EMPTY_IS_ABSENT = {("Limit", "value_raw"), ("ExternalDoc", "description")}


# ---------------------------------------------------------------------------------------
# base databases

def kitchen_sink_docs(c1: str = "DLC1", c2: str = "DLC2") -> List[str]:
    """one generated database using the element kinds of the ODX emitter (odxgen); c1, c2: names of the two containers"""
    css = hl.subset_doc()
    cs = hl.CS_DOC
    esd = og.Layer("ECU-SHARED-DATA", "ESD", "ESD")
    esd.dops.append(og.dop("ESD.u8", "shared_u8", og.dct_standard("A_UINT32", 8)))
    prot = og.Layer("PROTOCOL", "P.id", "L1")
    prot.comparam_spec_ref = og.ref("COMPARAM-SPEC-REF", "CS", "CS", "COMPARAM-SPEC")
    prot.comparam_refs.append(hl.comparam_ref(["cp1", ""], 1))
    bv = og.Layer("BASE-VARIANT", "BV", "BV")
    bv.funct_classes.append(og.tag("FUNCT-CLASS", og.sn("fc", "functional class"), ID="BV.FC"))
    lin = og.compu_method("LINEAR", [og.compu_scale(lower=og.limit("LOWER-LIMIT", 0, "CLOSED"),
                                                    upper=og.limit("UPPER-LIMIT", 200, "CLOSED"), num=[1, 0.0009765625], den=[1234567])])
    sl = og.compu_method("SCALE-LINEAR", [
        og.compu_scale(lower=og.limit("LOWER-LIMIT", 0, "CLOSED"), upper=og.limit("UPPER-LIMIT", 10, "OPEN"), num=[0, 1]),
        og.compu_scale(lower=og.limit("LOWER-LIMIT", 10, "CLOSED"), upper=og.limit("UPPER-LIMIT", 20, "CLOSED"), num=[-10, 2])])
    tt = og.compu_method("TEXTTABLE", [og.compu_scale(lower=og.limit("LOWER-LIMIT", 0), upper=og.limit("UPPER-LIMIT", 0), const_vt="off"),
                                       og.compu_scale(lower=og.limit("LOWER-LIMIT", 1), upper=og.limit("UPPER-LIMIT", 5), const_vt="on <&>")],
                          default_vt="undefined")
    ti = og.compu_method("TAB-INTP", [og.compu_scale(lower=og.limit("LOWER-LIMIT", 0), const_v=0),
                                      og.compu_scale(lower=og.limit("LOWER-LIMIT", 10), const_v=100)])
    rf = og.compu_method("RAT-FUNC", [og.compu_scale(lower=og.limit("LOWER-LIMIT", 0, "CLOSED"),
                                                     upper=og.limit("UPPER-LIMIT", 100, "CLOSED"), num=[1, 2], den=[1])])
    unit_spec = og.tag("UNIT-SPEC", og.tag("UNIT-GROUPS", og.tag("UNIT-GROUP", og.sn("ug") + "<CATEGORY>COUNTRY</CATEGORY>" +
                                                               og.tag("UNIT-REFS", og.ref("UNIT-REF", "BV.U.s")))) +
                      og.tag("UNITS", og.tag("UNIT", og.sn("second") + "<DISPLAY-NAME>s</DISPLAY-NAME><FACTOR-SI-TO-UNIT>1</FACTOR-SI-TO-UNIT>"
                                             "<OFFSET-SI-TO-UNIT>0</OFFSET-SI-TO-UNIT>" + og.ref("PHYSICAL-DIMENSION-REF", "BV.PD.t"),
                                             ID="BV.U.s")) +
                      og.tag("PHYSICAL-DIMENSIONS", og.tag("PHYSICAL-DIMENSION", og.sn("time") + "<TIME-EXP>1</TIME-EXP>", ID="BV.PD.t")))
    bv.unit_spec = unit_spec
    bv.dops += [
        og.dop("D.u8", "u8", og.dct_standard("A_UINT32", 8)),
        og.dop("D.lin", "lin", og.dct_standard("A_UINT32", 8), compu=lin, ptype="A_FLOAT64", unit_ref="BV.U.s",
               internal_constr=og.tag("INTERNAL-CONSTR", og.limit("LOWER-LIMIT", 0, "CLOSED") + og.limit("UPPER-LIMIT", 200, "CLOSED"))),
        og.dop("D.sl", "sl", og.dct_standard("A_UINT32", 8), compu=sl, ptype="A_INT32"),
        og.dop("D.tt", "tt", og.dct_standard("A_UINT32", 8), compu=tt, ptype="A_UNICODE2STRING"),
        og.dop("D.ti", "ti", og.dct_standard("A_UINT32", 8), compu=ti, ptype="A_FLOAT64"),
        og.dop("D.rf", "rf", og.dct_standard("A_UINT32", 8), compu=rf, ptype="A_FLOAT64"),
        og.dop("D.i16", "i16", og.dct_standard("A_INT32", 16, enc="2C", hilo=False), ptype="A_INT32"),
        og.dop("D.bcd", "bcd", og.dct_standard("A_UINT32", 16, enc="BCD-P")),
        og.dop("D.f32", "f32", og.dct_standard("A_FLOAT32", 32), ptype="A_FLOAT32"),
        og.dop("D.bytes", "bytes2", og.dct_standard("A_BYTEFIELD", 16), ptype="A_BYTEFIELD"),
        og.dop("D.mm", "mm", og.dct_minmax("A_UTF8STRING", 1, 5, "ZERO"), ptype="A_UNICODE2STRING"),
        og.dop("D.ll", "ll", og.dct_leading("A_BYTEFIELD", 8), ptype="A_BYTEFIELD"),
        og.dop("D.pl", "pl", og.dct_paramlen("A_UINT32", "BV.RQ.len.key"), ptype="A_UINT32"),
    ]
    bv.dtc_dops.append(og.dtc_dop("D.dtc", "dtcs", og.dct_standard("A_UINT32", 24), [("DTC.1", "P0001", 1, "first <fault>"),
                                                                                     ("DTC.2", "P0002", 2, "second & last")]))
    bv.structures += [
        og.structure("S.item", "item", [og.p_value("a", "D.u8"), og.p_value("b", "D.lin", semantic="DATA")]),
        og.structure("S.sized", "sized", [og.p_value("a", "D.u8", bytepos=0), og.p_reserved("r", 4, bytepos=1, bitpos=2)], bytesize=3),
    ]
    bv.static_fields.append(og.static_field("F.static", "static_f", "S.item", 2, 2))
    bv.dl_fields.append(og.dynamic_length_field("F.dl", "dl_f", "S.item", 1, 0, "D.u8"))
    bv.dem_fields.append(og.dynamic_endmarker_field("F.dem", "dem_f", "S.item", "D.u8", 255))
    bv.eopdu_fields.append(og.end_of_pdu_field("F.eop", "eop_f", "S.item"))
    bv.muxs.append(og.mux("M.1", "mux1", 1, 0, "D.u8", [("c1", 1, 3, "S.item"), ("c2", 4, 4, None)], default=("dflt", "S.sized")))
    bv.tables.append(og.table("T.1", "table1", "D.u8", [("T.1.r1", "row1", 1, "S.item", None), ("T.1.r2", "row2", 2, None, "D.lin")],
                              semantic="TAB"))
    bv.env_datas.append(og.env_data("E.1", "env1", [og.p_value("e", "D.u8")], [1]))
    bv.env_datas.append(og.env_data("E.all", "env_all", [og.p_value("e", "D.u8")]))
    bv.env_data_descs.append(og.env_data_desc("ED.1", "edd", "dtc", ["E.1", "E.all"]))
    bv.requests += [
        og.request("BV.RQ.read", "RQ_read", [og.p_const8("sid", 0x22), og.p_value("did", "D.i16", default="5"),
                                             og.p_physconst("pc", 7, "D.u8"), og.p_reserved("res", 8)]),
        og.request("BV.RQ.len", "RQ_len", [og.p_const8("sid", 0x2E), og.p_lengthkey("n", "BV.RQ.len.key", "D.u8"),
                                           og.p_value("v", "D.pl"), og.p_system("t", "TIMESTAMP", "D.u8")]),
        og.request("BV.RQ.tab", "RQ_tab", [og.p_const8("sid", 0x31), og.p_tablekey("key", "BV.RQ.tab.key", table_ref="T.1"),
                                           og.p_tablestruct("st", key_ref="BV.RQ.tab.key")]),
        og.request("BV.RQ.mux", "RQ_mux", [og.p_const8("sid", 0x2F), og.p_value("m", "M.1"), og.p_value("f", "F.eop")]),
    ]
    bv.pos_responses += [
        og.response("POS-RESPONSE", "BV.PR.read", "PR_read", [og.p_const8("sid", 0x62), og.p_matching("echo", 1, 2),
                                                              og.p_value("text", "D.mm"), og.p_value("x", "D.tt")]),
        og.response("POS-RESPONSE", "BV.PR.dtc", "PR_dtc", [og.p_const8("sid", 0x59), og.p_value("dtc", "D.dtc"),
                                                            og.p_value("edd", "ED.1")]),
    ]
    bv.neg_responses.append(og.response("NEG-RESPONSE", "BV.NR", "NR", [og.p_const8("sid", 0x7F), og.p_value("rq", "D.u8"),
                                                                        og.p_nrc("nrc", [0x10, 0x11], og.dct_standard("A_UINT32", 8))]))
    bv.gnrs.append(og.response("GLOBAL-NEG-RESPONSE", "BV.GNR", "GNR", [og.p_const8("sid", 0x7F), og.p_matching("rq_sid", 0, 1),
                                                                        og.p_value("code", "D.u8")]))
    bv.additional_audiences.append(og.tag("ADDITIONAL-AUDIENCE", og.sn("aa", "audience"), ID="BV.AA"))
    bv.state_charts.append(og.tag("STATE-CHART", og.sn("sc") + "<SEMANTIC>SESSION</SEMANTIC>" +
                                  og.tag("STATE-TRANSITIONS", og.tag("STATE-TRANSITION", og.sn("t1") +
                                                                     og.snref("SOURCE-SNREF", "s1") + og.snref("TARGET-SNREF", "s2"),
                                                                     ID="BV.SC.t1")) +
                                  og.snref("START-STATE-SNREF", "s1") +
                                  og.tag("STATES", og.tag("STATE", og.sn("s1"), ID="BV.SC.s1") + og.tag("STATE", og.sn("s2"), ID="BV.SC.s2")),
                                  ID="BV.SC"))
    bv.diag_comms += [
        og.service("BV.DC.read", "read", "BV.RQ.read", ["BV.PR.read"], ["BV.NR"], semantic="DATA", funct_class_refs=["BV.FC"],
                   addressing="PHYSICAL"),
        og.service("BV.DC.len", "write_len", "BV.RQ.len", ["BV.PR.dtc"]),
        og.service("BV.DC.tab", "tab", "BV.RQ.tab"),
        og.service("BV.DC.mux", "muxed", "BV.RQ.mux"),
        og.single_ecu_job("BV.JOB", "job1"),
    ]
    # ---- element kinds beyond the emitter's helpers, written out
    sdgs = ('<SDGS><SDG SI="vendor"><SDG-CAPTION ID="BV.SDGC"><SHORT-NAME>cap</SHORT-NAME><LONG-NAME>caption</LONG-NAME></SDG-CAPTION>'
            '<SD SI="key" TI="ti.key">value &amp; more</SD><SDG SI="nested"><SD>inner</SD></SDG></SDG></SDGS>')
    admin = ('<ADMIN-DATA><LANGUAGE>en-US</LANGUAGE><DOC-REVISIONS><DOC-REVISION><REVISION-LABEL>1.0</REVISION-LABEL>'
             '<STATE>draft</STATE><DATE>2024-01-01T00:00:00</DATE><TOOL>odxgen</TOOL><MODIFICATIONS><MODIFICATION>'
             '<CHANGE>created</CHANGE><REASON>test</REASON></MODIFICATION></MODIFICATIONS></DOC-REVISION></DOC-REVISIONS></ADMIN-DATA>')
    audience = ('<AUDIENCE IS-SUPPLIER="true" IS-DEVELOPMENT="false" IS-MANUFACTURING="true" IS-AFTERSALES="false" IS-AFTERMARKET="true">'
                '<ENABLED-AUDIENCE-REFS><ENABLED-AUDIENCE-REF ID-REF="BV.AA"/></ENABLED-AUDIENCE-REFS></AUDIENCE>')
    bv.requests.append(og.request("BV.RQ.rich", "RQ_rich", [og.p_const8("sid", 0x3E), og.p_const8("sub", 0x80)]))
    bv.pos_responses.append(og.response("POS-RESPONSE", "BV.PR.rich", "PR_rich", [og.p_const8("sid", 0x7E), og.p_value("v", "D.u8")]))
    bv.diag_comms.append(
        '<DIAG-SERVICE ID="BV.DC.rich" OID="oid.rich" SEMANTIC="FUNCTION" DIAGNOSTIC-CLASS="STARTCOMM" IS-MANDATORY="true" '
        'IS-EXECUTABLE="false" IS-FINAL="true" IS-CYCLIC="true" IS-MULTIPLE="false" ADDRESSING="FUNCTIONAL-OR-PHYSICAL" '
        'TRANSMISSION-MODE="SEND-AND-RECEIVE"><SHORT-NAME>rich</SHORT-NAME><LONG-NAME>rich service</LONG-NAME>'
        '<DESC TI="ti.desc"><p>a <b>rich</b> service</p><EXTERNAL-DOCS><EXTERNAL-DOC HREF="http://x/y?a=1&amp;b=2">the doc</EXTERNAL-DOC>'
        '</EXTERNAL-DOCS></DESC>' + admin + sdgs +
        '<FUNCT-CLASS-REFS><FUNCT-CLASS-REF ID-REF="BV.FC"/></FUNCT-CLASS-REFS>'
        # an audience that consists of flags only (an element without children)
        '<AUDIENCE IS-SUPPLIER="true" IS-DEVELOPMENT="false" IS-AFTERSALES="false"/>'
        +
        '<PROTOCOL-SNREFS><PROTOCOL-SNREF SHORT-NAME="L1"/></PROTOCOL-SNREFS>'
        '<RELATED-DIAG-COMM-REFS><RELATED-DIAG-COMM-REF ID-REF="BV.DC.read"><RELATION-TYPE>precondition</RELATION-TYPE>'
        '</RELATED-DIAG-COMM-REF></RELATED-DIAG-COMM-REFS>'
        '<PRE-CONDITION-STATE-REFS><PRE-CONDITION-STATE-REF ID-REF="BV.SC.s1"/></PRE-CONDITION-STATE-REFS>'
        '<STATE-TRANSITION-REFS><STATE-TRANSITION-REF ID-REF="BV.SC.t1"/></STATE-TRANSITION-REFS>'
        '<REQUEST-REF ID-REF="BV.RQ.rich"/><POS-RESPONSE-REFS><POS-RESPONSE-REF ID-REF="BV.PR.rich"/></POS-RESPONSE-REFS>'
        '<POS-RESPONSE-SUPPRESSABLE><BIT-MASK>80</BIT-MASK><CODED-CONST-SNREF SHORT-NAME="sub"/></POS-RESPONSE-SUPPRESSABLE>'
        '</DIAG-SERVICE>')
    bv.diag_comms.append(
        '<SINGLE-ECU-JOB ID="BV.JOB2" SEMANTIC="JOB"><SHORT-NAME>job2</SHORT-NAME>' + sdgs.replace("BV.SDGC", "BV.SDGC2") + audience +
        '<PROG-CODES><PROG-CODE><CODE-FILE>job.py</CODE-FILE><ENCRYPTION>none</ENCRYPTION><SYNTAX>PYTHON3</SYNTAX>'
        '<REVISION>2</REVISION><ENTRYPOINT>main</ENTRYPOINT><LIBRARY-REFS><LIBRARY-REF ID-REF="BV.LIB"/></LIBRARY-REFS>'
        '</PROG-CODE></PROG-CODES>'
        '<INPUT-PARAMS><INPUT-PARAM OID="oid.in" SEMANTIC="IN"><SHORT-NAME>in1</SHORT-NAME><LONG-NAME>input</LONG-NAME>'
        '<PHYSICAL-DEFAULT-VALUE>5</PHYSICAL-DEFAULT-VALUE><DOP-BASE-REF ID-REF="D.u8"/></INPUT-PARAM></INPUT-PARAMS>'
        '<OUTPUT-PARAMS><OUTPUT-PARAM ID="BV.JOB2.out" OID="oid.out" SEMANTIC="OUT"><SHORT-NAME>out1</SHORT-NAME>'
        '<DOP-BASE-REF ID-REF="D.lin"/></OUTPUT-PARAM></OUTPUT-PARAMS>'
        '<NEG-OUTPUT-PARAMS><NEG-OUTPUT-PARAM><SHORT-NAME>neg1</SHORT-NAME><LONG-NAME>negative</LONG-NAME>'
        '<DOP-BASE-REF ID-REF="D.u8"/></NEG-OUTPUT-PARAM></NEG-OUTPUT-PARAMS></SINGLE-ECU-JOB>')
    for (nm, cls, sid) in (("clr_dyn", "CLEAR-DYN-DEF-MESSAGE", 0x2C), ("read_dyn", "READ-DYN-DEFINED-MESSAGE", 0x2A), ("def_dyn", "DYN-DEF-MESSAGE", 0x2D)):
        bv.requests.append(og.request(f"BV.RQ.{nm}", f"RQ_{nm}", [og.p_const8("sid", sid)]))
        bv.diag_comms.append(og.service(f"BV.DC.{nm}", nm, f"BV.RQ.{nm}").replace("<DIAG-SERVICE ", f'<DIAG-SERVICE DIAGNOSTIC-CLASS="{cls}" ', 1))
    bv.libraries = ['<LIBRARY ID="BV.LIB" OID="oid.lib"><SHORT-NAME>lib</SHORT-NAME><LONG-NAME>library</LONG-NAME>'
                    '<CODE-FILE>job.py</CODE-FILE><ENCRYPTION>none</ENCRYPTION><SYNTAX>PYTHON3</SYNTAX><REVISION>1</REVISION>'
                    '<ENTRYPOINT>init</ENTRYPOINT></LIBRARY>']
    bv.sub_components = [
        '<SUB-COMPONENT ID="BV.SUB" OID="oid.sub" SEMANTIC="sensor"><SHORT-NAME>sub1</SHORT-NAME><LONG-NAME>sub component</LONG-NAME>'
        '<SUB-COMPONENT-PATTERNS><SUB-COMPONENT-PATTERN><MATCHING-PARAMETERS>' + og.matching_parameter("5", "read", out_snref="did") +
        '</MATCHING-PARAMETERS></SUB-COMPONENT-PATTERN></SUB-COMPONENT-PATTERNS>'
        '<SUB-COMPONENT-PARAM-CONNECTORS><SUB-COMPONENT-PARAM-CONNECTOR ID="BV.SUB.pc"><SHORT-NAME>pc</SHORT-NAME>'
        '<DIAG-COMM-SNREF SHORT-NAME="read"/><OUT-PARAM-IF-REFS><OUT-PARAM-IF-SNREF SHORT-NAME="text"/></OUT-PARAM-IF-REFS>'
        '<IN-PARAM-IF-REFS><IN-PARAM-IF-SNREF SHORT-NAME="did"/></IN-PARAM-IF-REFS></SUB-COMPONENT-PARAM-CONNECTOR>'
        '</SUB-COMPONENT-PARAM-CONNECTORS>'
        '<TABLE-ROW-CONNECTORS><TABLE-ROW-CONNECTOR><SHORT-NAME>trc</SHORT-NAME><TABLE-REF ID-REF="T.1"/>'
        '<TABLE-ROW-SNREF SHORT-NAME="row1"/></TABLE-ROW-CONNECTOR></TABLE-ROW-CONNECTORS>'
        '<ENV-DATA-CONNECTORS><ENV-DATA-CONNECTOR><SHORT-NAME>edc</SHORT-NAME><ENV-DATA-DESC-REF ID-REF="ED.1"/>'
        '<ENV-DATA-SNREF SHORT-NAME="env1"/></ENV-DATA-CONNECTOR></ENV-DATA-CONNECTORS>'
        '<DTC-CONNECTORS><DTC-CONNECTOR><SHORT-NAME>dc</SHORT-NAME><DTC-DOP-REF ID-REF="D.dtc"/><DTC-SNREF SHORT-NAME="P0001"/>'
        '</DTC-CONNECTOR></DTC-CONNECTORS></SUB-COMPONENT>']
    # a second group refers to the caption of the first instead of bringing its own
    bv.layer_sdgs = sdgs.replace("BV.SDGC", "BV.SDGC3").replace(
        "</SDGS>", '<SDG SI="by-ref"><SDG-CAPTION-REF ID-REF="BV.SDGC3"/><SD>referenced caption</SD></SDG></SDGS>')
    bv.layer_admin = admin
    bv.tail = (
        '<DIAG-VARIABLES><DIAG-VARIABLE ID="BV.DV" IS-READ-BEFORE-WRITE="true"><SHORT-NAME>dv1</SHORT-NAME><LONG-NAME>variable</LONG-NAME>'
        '<VARIABLE-GROUP-REF ID-REF="BV.VG"/><SW-VARIABLES><SW-VARIABLE OID="oid.swv"><SHORT-NAME>swv</SHORT-NAME><ORIGIN>sw &lt;1&gt;</ORIGIN>'
        '</SW-VARIABLE></SW-VARIABLES><COMM-RELATIONS><COMM-RELATION VALUE-TYPE="CURRENT"><DESC><p>relation</p></DESC>'
        '<RELATION-TYPE>READ</RELATION-TYPE><DIAG-COMM-SNREF SHORT-NAME="read"/><IN-PARAM-IF-SNREF SHORT-NAME="did"/>'
        '<OUT-PARAM-IF-SNREF SHORT-NAME="text"/></COMM-RELATION></COMM-RELATIONS></DIAG-VARIABLE></DIAG-VARIABLES>'
        '<VARIABLE-GROUPS><VARIABLE-GROUP ID="BV.VG"><SHORT-NAME>vg1</SHORT-NAME><LONG-NAME>group</LONG-NAME></VARIABLE-GROUP></VARIABLE-GROUPS>'
        '<DYN-DEFINED-SPEC><DYN-ID-DEF-MODE-INFOS><DYN-ID-DEF-MODE-INFO><DEF-MODE>BY-IDENTIFIER</DEF-MODE>'
        '<CLEAR-DYN-DEF-MESSAGE-SNREF SHORT-NAME="clr_dyn"/><READ-DYN-DEF-MESSAGE-SNREF SHORT-NAME="read_dyn"/>'
        '<DYN-DEF-MESSAGE-SNREF SHORT-NAME="def_dyn"/><SUPPORTED-DYN-IDS><SUPPORTED-DYN-ID>F200</SUPPORTED-DYN-ID>'
        '<SUPPORTED-DYN-ID>F201</SUPPORTED-DYN-ID></SUPPORTED-DYN-IDS><SELECTION-TABLE-REFS><SELECTION-TABLE-REF ID-REF="T.1"/>'
        '<SELECTION-TABLE-SNREF SHORT-NAME="table1"/></SELECTION-TABLE-REFS></DYN-ID-DEF-MODE-INFO></DYN-ID-DEF-MODE-INFOS></DYN-DEFINED-SPEC>')
    bv.patterns = og.base_variant_pattern([og.matching_parameter("7", "read", out_snref="did", base_variant=True, physical=True)])
    bv.import_refs.append(og.ref("IMPORT-REF", "ESD", c2, "CONTAINER"))
    bv.comparam_refs.append(hl.comparam_ref(["cpx", ""], 2))
    bv.parent_refs.append(og.parent_ref("P.id", "PROTOCOL", c1))
    ev = og.Layer("ECU-VARIANT", "EV", "EV")
    ev.parent_refs.append(og.parent_ref("BV", "BASE-VARIANT", c1, ni_diag_comms=["tab"], ni_dops=["bcd"], ni_tables=["table1"],
                                        ni_gnrs=["GNR"]))
    ev.patterns = og.ecu_variant_patterns([[og.matching_parameter("5", "read", out_snref="did")]])
    ev.dops.append(og.dop("EV.u8", "ev_u8", og.dct_standard("A_UINT32", 8)))
    # a variant in the other container: whichever document comes first, a layer is resolved before a layer it inherits from
    # or is imported by
    ev2 = og.Layer("ECU-VARIANT", "EV2", "EV2")
    ev2.parent_refs.append(og.parent_ref("BV", "BASE-VARIANT", c1, ni_diag_comms=["read"]))
    ev2.dops.append(og.dop("EV2.u8", "ev2_u8", og.dct_standard("A_UINT32", 8)))
    return [cs, css, og.container(c1, c1, [prot, bv, ev]), og.container(c2, c2, [esd, ev2])]


def behaviour(db: Any) -> str:
    """a battery of encode / decode results (what a user of the database observes)"""
    from odxtools.exceptions import OdxError
    out: List[Any] = []
    for dl in sorted(db.diag_layers, key=lambda x: x.short_name):
        svcs = getattr(dl, "services", [])
        for s in sorted(svcs, key=lambda x: x.short_name):
            rq = s.request
            row: List[Any] = [dl.short_name, s.short_name]
            if rq is not None:
                try:
                    row.append(bytes(rq.coded_const_prefix()).hex())
                    row.append(rq.get_static_bit_length())
                    row.append(sorted(p.short_name for p in rq.required_parameters))
                    row.append(sorted(p.short_name for p in rq.free_parameters))
                    if not rq.required_parameters:
                        m = bytes(s.encode_request())
                        row.append(m.hex())
                        row.append(sorted((x.service.short_name, repr(sorted(x.param_dict.items()))[:200]) for x in dl.decode(m)))
                except OdxError as e:
                    row.append(type(e).__name__)
                except Exception as e:  # noqa: BLE001
                    row.append("foreign:" + type(e).__name__)
            for r in list(s.positive_responses) + list(s.negative_responses):
                try:
                    row.append([r.short_name, bytes(r.coded_const_prefix()).hex(), r.get_static_bit_length()])
                except Exception as e:  # noqa: BLE001
                    row.append([r.short_name, type(e).__name__])
            out.append(row)
        if hasattr(dl, "comparam_refs"):
            out.append([dl.short_name, "cps", sorted((cp.short_name, cp.protocol_snref or "", repr(cp.value)) for cp in dl.comparam_refs)])
    return hashlib.sha1(repr(out).encode()).hexdigest()[:16]


# ---------------------------------------------------------------------------------------
# part A: entry points and member orders

def _docs_by_name() -> Dict[str, bytes]:
    cs, css, d1, d2 = kitchen_sink_docs()
    return {"CS": cs.encode(), "CSS": css.encode(), "DLC1": d1.encode(), "DLC2": d2.encode(), "job": b"# code of job1\n",
            "index": b'<?xml version="1.0" encoding="UTF-8"?>\n<CATALOG><SHORT-NAME>MyDb</SHORT-NAME></CATALOG>\n'}


def _init(repo: str) -> None:
    import warnings
    from .. import common
    common.REPO = common.Path(repo)
    common.import_repo()
    warnings.simplefilter("ignore")


def process_loads(args: Tuple[List[Dict[str, Any]], int]) -> Dict[str, Any]:
    recs, chunk_no = args
    from odxtools.exceptions import OdxError
    fails: List[Tuple[str, Dict[str, Any]]] = []
    st = {"loads": 0, "archive": 0, "directory": 0, "files": 0, "plain_odx_suffix": 0}
    scratch = str(tlc.WORK / f"c11-{os.getpid()}-{chunk_no}")
    docs = _docs_by_name()
    ref: Dict[str, Tuple[str, str]] = {}
    try:
        for rec in recs:
            members = [(m["stem"] + m["suffix"], docs[m["stem"]]) for m in rec["order"]]
            st["loads"] += 1
            st[rec["entry"]] += 1
            st["plain_odx_suffix"] += any(m["suffix"] in (".odx", ".ODX-D") for m in rec["order"])
            case = {"machine": "Pdx", "entry": rec["entry"], "order": [m["stem"] + m["suffix"] for m in rec["order"]]}
            try:
                db = pdx.load_entry(rec["entry"], members, scratch)
            except OdxError as e:
                fails.append(("load_raises", {**case, "exc": f"{type(e).__name__}: {str(e)[:120]}"}))
                continue
            except Exception as e:  # noqa: BLE001
                fails.append(("load_raises", {**case, "exc": f"{type(e).__name__}: {str(e)[:120]}"}))
                continue
            want = rec["canon"]
            got_docs = sorted(k.split("[")[1][:-1] for k, _r in pdx.roots(db))
            got_aux = sorted(os.path.basename(k) for k in db.auxiliary_files)
            if got_docs != sorted(want["docs"]):
                fails.append(("documents", {**case, "expected": sorted(want["docs"]), "got": got_docs}))
                continue
            if got_aux != sorted(want["aux"]):
                fails.append(("auxiliary_files", {**case, "expected": sorted(want["aux"]), "got": got_aux}))
            if sorted(db.auxiliary_files) != sorted(want["aux"]):
                fails.append(("auxiliary_file_keys", {**case, "expected": sorted(want["aux"]), "got": sorted(db.auxiliary_files)}))
            if db.short_name != want["name"]:
                fails.append(("database_name", {**case, "expected": want["name"], "got": db.short_name}))
            key = json.dumps(sorted(want["docs"]))
            sig = (pdx.digest(db), behaviour(db))
            if key not in ref:
                ref[key] = sig
            elif sig[0] != ref[key][0]:
                fails.append(("content_depends_on_order_or_entry", {**case}))
            elif sig[1] != ref[key][1]:
                fails.append(("behaviour_depends_on_order_or_entry", {**case}))
    finally:
        shutil.rmtree(scratch, ignore_errors=True)
    return {"fails": fails[:200], "stats": st, "ref": ref}


# ---------------------------------------------------------------------------------------
# part B: sessions

class Interner:
    def __init__(self) -> None:
        self.ids: Dict[str, int] = {}

    def __call__(self, s: Any) -> int:
        k = s if isinstance(s, str) else hashlib.sha1(s).hexdigest()
        return self.ids.setdefault(k, len(self.ids) + 1)


def _load_base(base: str) -> Any:
    from odxtools.loadfile import load_pdx_file
    if base == "kitchen":
        return og.load(kitchen_sink_docs())
    if base in ("crossref_layer", "crossref_container"):
        # a reference into another container that names its target document (no IMPORT-REF)
        esd = og.Layer("ECU-SHARED-DATA", "ESD", "ESD")
        esd.dops.append(og.dop("ESD.u8", "shared_u8", og.dct_standard("A_UINT32", 8)))
        bv = og.Layer("BASE-VARIANT", "BV", "BV")
        how = ("ESD", "LAYER") if base == "crossref_layer" else ("DLC2", "CONTAINER")
        bv.requests.append(og.request("BV.RQ", "RQ", [og.p_const8("sid", 0x22), og.p_value("v", "ESD.u8", docref=how[0], doctype=how[1])]))
        bv.diag_comms.append(og.service("BV.DC", "svc", "BV.RQ"))
        return og.load([og.container("DLC1", "DLC1", [bv]), og.container("DLC2", "DLC2", [esd])])
    if base == "kitchen_renamed":          # the same layers in containers of other names
        return og.load(kitchen_sink_docs("OTHER1", "OTHER2"))
    return load_pdx_file(str(REPO / "examples" / base))


def process_sessions(args: Tuple[List[Dict[str, Any]], int]) -> Dict[str, Any]:
    """each job: {base, site?}; returns the recorded sessions (events with interned ids local to this process)"""
    jobs, chunk_no = args
    from odxtools.loadfile import load_pdx_file
    scratch = str(tlc.WORK / f"c11s-{os.getpid()}-{chunk_no}")
    os.makedirs(scratch, exist_ok=True)
    cid, bid, mid = Interner(), Interner(), Interner()
    sessions: List[Dict[str, Any]] = []
    st = {"sessions": 0, "perturbations": 0, "not_applicable": 0, "writes": 0, "loads": 0}
    try:
        for job in jobs:
            ev: List[Dict[str, Any]] = [{"ev": "begin"}]
            info: Dict[str, Any] = {"job": job, "diffs": {}, "errors": []}

            def have(h: str, db: Any) -> None:
                ev.append({"ev": "have", "h": h, "c": cid(pdx.digest(db)), "b": bid(behaviour(db))})

            def write(h: str, db: Any, a: str) -> Optional[str]:
                p = os.path.join(scratch, f"{a}.pdx")
                try:
                    data = pdx.write_db(db, p)
                except Exception as e:  # noqa: BLE001
                    info["errors"].append(("write_raises", f"{type(e).__name__}: {str(e)[:120]}"))
                    return None
                st["writes"] += 1
                ev.append({"ev": "write", "h": h, "a": a, "members": sorted([n, mid(b)] for n, b in pdx.content_members(data).items())})
                return p

            def load(a: str, p: str, h: str, original: Any) -> Any:
                try:
                    db2 = load_pdx_file(p)
                except Exception as e:  # noqa: BLE001
                    info["errors"].append(("load_raises", f"{type(e).__name__}: {str(e)[:120]}"))
                    return None
                st["loads"] += 1
                ev.append({"ev": "load", "a": a, "entry": "archive", "h": h, "c": cid(pdx.digest(db2)), "b": bid(behaviour(db2))})
                if not job.get("site"):
                    # resolving everything a second time must not change what was loaded
                    try:
                        db2.refresh()
                        ev.append({"ev": "refresh", "h": h, "c": cid(pdx.digest(db2)), "b": bid(behaviour(db2))})
                    except Exception as e:  # noqa: BLE001
                        info["errors"].append(("refresh_raises", f"{type(e).__name__}: {str(e)[:120]}"))
                info["diffs"][len(ev)] = pdx.diff_db(original, db2, limit=6)
                return db2
            db = _load_base(job["base"])
            if job.get("site"):
                o, f = pdx.resolve_path(db, job["site"]["path"])
                hint = pdx._hints(type(o)).get(f)
                ok, nv = pdx.new_value(type(o), f, getattr(o, f), hint)
                if job["site"].get("kind") == "empty":
                    nv = ""
                if job["site"].get("kind") == "emptied":
                    nv = []
                have("h1", db)
                setattr(o, f, nv)
                st["perturbations"] += 1
                ev.append({"ev": "perturb", "h": "h1", "c": cid(pdx.digest(db)), "site": job["site"]["path"]})
                info["new_value"] = repr(nv)[:60]
            else:
                have("h1", db)
            p1 = write("h1", db, "a1")
            if p1 and not job.get("site"):
                # the same database object written a second time: the same archive content
                write("h1", db, "a1b")
            if p1:
                db2 = load("a1", p1, "h2", db)
                if db2 is not None:
                    p2 = write("h2", db2, "a2")
                    if p2 and job.get("second_base"):
                        # another database written in the same process, then the first one again
                        other = _load_base(job["second_base"])
                        have("h3", other)
                        p3 = write("h3", other, "a3")
                        if p3:
                            load("a3", p3, "h4", other)
                        p4 = write("h2", db2, "a4")
                        if p4:
                            load("a4", p4, "h5", db2)
            info["invalid_value"] = bool(info["errors"] and job.get("site") and
                                         not any("ParseError" in e[1] or e[0] == "write_raises" for e in info["errors"]))
            st["sessions"] += 1
            sessions.append({"events": ev, "info": info})
    finally:
        shutil.rmtree(scratch, ignore_errors=True)
    return {"sessions": sessions, "stats": st}


def enumerate_sites(bases: List[str]) -> List[Dict[str, Any]]:
    out = []
    for b in bases:
        db = _load_base(b)
        for (path, o, f, old, _hint) in pdx.sites(db):
            if (type(o).__name__, f) in DERIVED:
                continue
            out.append({"base": b, "site": {"path": path, "class": type(o).__name__, "field": f, "was_none": old is None, "kind": "value"}})
            t, opt = pdx._strip_optional(_hint)
            if opt and (t is str) and old != "" and type(o).__name__ != "Description" and (type(o).__name__, f) not in EMPTY_IS_ABSENT:
                # an empty string is a value, not an absent attribute
                out.append({"base": b, "site": {"path": path, "class": type(o).__name__, "field": f, "was_none": old is None, "kind": "empty"}})
        for (path, o, f) in pdx.list_sites(db):
            if (type(o).__name__, f) in DERIVED_LISTS:
                continue
            out.append({"base": b, "site": {"path": path, "class": type(o).__name__, "field": f, "was_none": False, "kind": "emptied"}})
    return out


def all_dataclass_fields() -> set:   # type: ignore[type-arg]
    """the attribute space: (class, field) of simple type for every dataclass of the package (inherited fields included)"""
    import dataclasses
    import importlib
    import pkgutil
    import odxtools
    out = set()
    seen = set()
    for m in pkgutil.walk_packages(odxtools.__path__, "odxtools."):
        if ".cli" in m.name or "templates" in m.name:
            continue
        try:
            mod = importlib.import_module(m.name)
        except Exception:  # noqa: BLE001
            continue
        for x in vars(mod).values():
            if isinstance(x, type) and dataclasses.is_dataclass(x) and x.__module__ == m.name and x not in seen:
                seen.add(x)
                if getattr(getattr(x, "__dataclass_params__", None), "frozen", False):
                    continue
                hints = pdx._hints(x)
                for f in dataclasses.fields(x):
                    if f.compare and (x.__name__, f.name) not in DERIVED:
                        ok, _ = pdx.new_value(x, f.name, None, hints.get(f.name))
                        if ok:
                            out.add((x.__name__, f.name))
    return out


def check(tier: str, replay: Optional[str] = None) -> int:
    import_repo()
    v = Verdicts(PROP, tier)
    case = json.loads(open(replay).read()) if replay else None
    ctx = mp.get_context("spawn")
    stats: Dict[str, int] = {}
    # ---- part A
    res = tlc.run("MC_Pdx.tla", "MC_Pdx.cfg", timeout=3000)
    if not res.ok:
        raise tlc.MachineryError(f"TLC failed on Pdx: {res.violated} {res.errors[:3]}\n{res.stdout[-2000:]}")
    recs = list(res.json_lines())
    print(f"[C11] TLC Pdx: {res.distinct} states, {len(recs)} load behaviours, {res.wall_s:.1f}s", flush=True)
    if tier == "quick" and not case:
        rng = random.Random(seed())
        recs = rng.sample(recs, 600)
    if case:
        recs = [r for r in recs if case.get("machine") == "Pdx" and r["entry"] == case["entry"] and
                [m["stem"] + m["suffix"] for m in r["order"]] == case["order"]]
    if recs:
        n = min(16, max(1, len(recs) // 20))
        size = (len(recs) + n - 1) // n
        chunks = [(recs[i:i + size], j) for j, i in enumerate(range(0, len(recs), size))]
        with ctx.Pool(len(chunks), initializer=_init, initargs=(str(REPO),)) as pool:
            outs = pool.map(process_loads, chunks)
        refs: Dict[str, set] = {}   # type: ignore[type-arg]
        for o in outs:
            for (clause, c) in o["fails"]:
                v.fail(clause, c)
            for k, x in o["stats"].items():
                stats[k] = stats.get(k, 0) + x
            for k, sig in o["ref"].items():
                refs.setdefault(k, set()).add(tuple(sig))
        for k, sigs in refs.items():
            if len(sigs) > 1:
                v.fail("content_depends_on_order_or_entry", {"machine": "Pdx", "entry": "across processes", "order": [], "documents": k})
    # ---- part B
    bases = ["kitchen", "somersault.pdx"] + (["somersault_modified.pdx"] if tier == "thorough" else [])
    jobs: List[Dict[str, Any]] = [{"base": b} for b in bases + ["crossref_layer", "crossref_container"]]
    jobs += [{"base": "kitchen", "second_base": "somersault.pdx"}, {"base": "somersault.pdx", "second_base": "kitchen"},
             {"base": "kitchen", "second_base": "kitchen_renamed"}, {"base": "kitchen_renamed", "second_base": "kitchen"}]
    site_jobs = enumerate_sites(bases)
    total_sites = len(site_jobs)
    if case and case.get("machine") == "PdxTrace":
        jobs = [j for j in jobs + site_jobs if j == case["job"]]
    elif case:
        jobs = []
    else:
        jobs += site_jobs
    sessions: List[Dict[str, Any]] = []
    if jobs:
        rng = random.Random(seed())
        rng.shuffle(jobs)
        n = min(16, max(1, len(jobs) // 4))
        size = (len(jobs) + n - 1) // n
        jchunks = [(jobs[i:i + size], j) for j, i in enumerate(range(0, len(jobs), size))]
        with ctx.Pool(len(jchunks), initializer=_init, initargs=(str(REPO),)) as pool:
            souts = pool.map(process_sessions, jchunks)
        for o in souts:
            sessions += o["sessions"]
            for k, x in o["stats"].items():
                stats[k] = stats.get(k, 0) + x
    # the sessions as one trace, validated by TLC
    covered = set()
    if sessions:
        wd = tlc.workdir("pdxtrace")
        try:
            tf = wd / "trace.ndjson"
            lines: List[str] = []
            owner: List[Tuple[int, int]] = []     # line -> (session, event index)
            for tid, s in enumerate(sessions, 1):
                for k, e in enumerate(s["events"]):
                    lines.append(json.dumps({**e, "tid": tid}))
                    owner.append((tid - 1, k))
            tf.write_text("\n".join(lines) + "\n")
            (wd / "T.cfg").write_text("SPECIFICATION TraceSpec\nPOSTCONDITION TraceAccepted\nCHECK_DEADLOCK FALSE\n")
            tres = tlc.run("PdxTrace.tla", str(wd / "T.cfg"), workers=1, env={"TRACE_FILE": str(tf)}, timeout=3000)
            if not tres.ok or tres.distinct != len(lines) + 1:
                raise tlc.MachineryError(f"Pdx trace not consumed ({tres.distinct} states, {len(lines)} lines) {tres.errors[:3]}\n"
                                         f"{tres.stdout[-1500:]}")
            print(f"[C11] TLC PdxTrace: {len(sessions)} sessions, {len(lines)} events, {tres.wall_s:.1f}s", flush=True)
            flagged: Dict[int, List[Tuple[str, int]]] = {}
            for val in tres.values():
                if isinstance(val, tuple) and len(val) == 4 and val[0] == "V":
                    si, k = owner[int(val[2]) - 1]
                    flagged.setdefault(si, []).append((str(val[3]), k))
            # a changed value that makes the document invalid (a type that does not fit, ...) is not a round trip question -
            # provided the unchanged database of that base does make the round trip
            base_ok = {s["info"]["job"]["base"]: not s["info"]["errors"] for s in sessions
                       if not s["info"]["job"].get("site") and not s["info"]["job"].get("second_base")}
            # what the unchanged database already loses is reported once, for the plain session of that base
            base_lost: Dict[str, set] = {}   # type: ignore[type-arg]
            for s in sessions:
                if not s["info"]["job"].get("site") and not s["info"]["job"].get("second_base"):
                    base_lost[s["info"]["job"]["base"]] = {(x["class"], x["field"], x["kind"]) for d in s["info"]["diffs"].values() for x in d}
            for si, s in enumerate(sessions):
                job = s["info"]["job"]
                if s["info"].get("invalid_value") and base_ok.get(job["base"], True):
                    stats["not_applicable"] = stats.get("not_applicable", 0) + 1
                    continue
                site = job.get("site") or {}
                if site:
                    covered.add((site["class"], site["field"]))
                base = {"machine": "PdxTrace", "job": job, "base": job["base"], "class": site.get("class", ""),
                        "field": site.get("field", ""), "was_none": site.get("was_none", False), "new_value": s["info"].get("new_value", "")}
                for (what, msg) in s["info"]["errors"]:
                    clause = "not_well_formed" if "ParseError" in msg else what
                    v.fail(clause, {**base, "exc": msg})
                for (clause, k) in flagged.get(si, []):
                    d = s["info"]["diffs"].get(k + 1, [])
                    if clause == "load_differs" and d:
                        # one violation per attribute that did not survive
                        if site or job.get("second_base"):
                            d = [x for x in d if (x["class"], x["field"], x["kind"]) not in base_lost.get(job["base"], set())]
                        for x in d[:4]:
                            v.fail("load_differs", {**base, "lost_class": x["class"], "lost_field": x["field"], "kind": x["kind"],
                                                    "path": x["path"], "written": x["a"], "loaded": x["b"]})
                    else:
                        v.fail(clause, {**base, "event": s["events"][k].get("ev"), "archive": s["events"][k].get("a", "")})
        finally:
            tlc.rmtree(wd)
    print(f"[C11] replay: {stats}", flush=True)
    if not replay:
        for k in ("archive", "directory", "files", "plain_odx_suffix", "perturbations", "writes", "loads"):
            if not stats.get(k):
                v.vacuous(f"vacuity: {k} = 0 in {stats}")
    space = all_dataclass_fields()
    cov = {"states": res.distinct, "transitions": res.generated,
           "traces_validated_against_impl": stats.get("loads", 0) + stats.get("sessions", 0),
           "evaluations": stats.get("loads", 0) + stats.get("writes", 0), "distinct_nontrivial": stats.get("sessions", 0),
           "rule": "A: every order of the members x {archive, directory, files} for three file sets (with / without catalogue, plain "
                   ".odx and upper-case suffixes); quick replays a seeded sample of 600 of the behaviours, thorough all.  B: for each "
                   "base database (generated kitchen sink, somersault.pdx" + (", somersault_modified.pdx" if tier == "thorough" else "") +
                   ") the plain round trip and one session per (element class, attribute, was-None) site of simple type (bool, int, "
                   "float, enum, string incl. XML metacharacters); two sessions write two databases alternately in one process; all "
                   "sessions validated by TLC against PdxTrace.tla; distinct = sessions",
           "exhaustive": tier == "thorough", "replay": stats, "sites": total_sites,
           "attribute_space": {"perturbed_class_field_pairs": len(covered & space), "simple_typed_dataclass_fields_in_package": len(space),
                               "classes_without_any_perturbed_field": sorted({c for (c, _f) in space} - {c for (c, _f) in covered})},
           "samples": [sessions[len(sessions) // 2]["events"][:4]] if sessions else []}
    return v.finish(cov, ["TLC and the CommunityModules", "structural equality = all dataclass fields with compare=True, recursively "
                          "(resolved references are not fields)", "attributes of element classes that occur in no base database, "
                          "references / identifiers / short names, and list- or object-valued attributes are not perturbed",
                          "context-derived fields (DERIVED in harness/checks/c11.py) are not attributes of their own",
                          "behaviour = battery of prefixes, lengths, required/free parameters, default encodings and their decoding"])
