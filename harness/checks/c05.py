"""C05 - decided by the codec engine (spec/Codec.tla + CodecCore.tla + Bits.tla); see harness/codec_run.py."""
from typing import Optional

from .. import codec_run


def check(tier: str, replay: Optional[str] = None) -> int:
    return codec_run.check("C05", tier, replay)
