"""C18 - the comparison tool reports the true differences, the overview the true counts (spec/Compare.tla).

TLC enumerates base layers (subsequences of a service alphabet with shared, distinct, empty and missing request prefixes) and
sessions of edits (add / delete / rename a service, change one attribute of one parameter, change a data object in place), checks
on the design that the declarative classification Report reports every single edit as exactly that edit, and emits for every
(old, new) pair the expected report.  Both versions are rebuilt as ODX XML, loaded, and compared by the real
Comparison.compare_diagnostic_layers / compare_databases - all cases of a chunk in ONE process and through ONE Comparison object, so
that a report depending on an earlier comparison shows.  The overview table of print_dl_metrics is read back for every version
and for the layer hierarchies of spec/Layers.tla (inherited services, data objects and communication parameters).
"""
from __future__ import annotations

import json
import os
import multiprocessing as mp
import random
import re
from typing import Any, Dict, List, Optional, Tuple

from .. import layers as hl
from .. import odxgen as og
from .. import tlc
from ..common import REPO, Verdicts, import_repo, seed

PROP = "C18"


# ---------------------------------------------------------------------------------------
# a side of Compare.tla -> ODX

def _param(p: Dict[str, Any]) -> str:
    kw: Dict[str, Any] = {}
    if p["bp"] >= 0:
        kw["bytepos"] = p["bp"]
    if p["sem"]:
        kw["semantic"] = p["sem"]
    if p["k"] == "CONST":
        return og.p_const(p["n"], p["cv"], og.dct_standard(p["dt"], p["bits"]), **kw)
    if p["k"] == "VALUE":
        return og.p_value(p["n"], f"D.{p['dop']}", **kw)
    return og.p_physconst(p["n"], p["cv"], f"D.{p['dop']}", **kw)


def build_docs(side: Dict[str, Any], ids: Dict[str, str], extra_layer: bool, ncp: int) -> List[str]:
    """ids: service name -> the name its IDs are derived from (a renamed service may keep or change its IDs)"""
    lay = og.Layer("BASE-VARIANT", "BV", "BV")
    for d in sorted(side["dops"]):
        lay.dops.append(og.dop(f"D.{d}", d, og.dct_standard("A_UINT32", side["dops"][d]["bits"]), ptype=side["dops"][d]["pt"],
                               compu=og.compu_method("LINEAR", [og.compu_scale(num=[0, 1])])))
    for s in side["svcs"]:
        i = ids.get(s["name"], s["name"])
        if s["hasrq"]:
            lay.requests.append(og.request(f"RQ.{i}", f"RQ_{i}", [_param(p) for p in s["rq"]]))
        lay.pos_responses.append(og.response("POS-RESPONSE", f"PR.{i}", f"PR_{i}", [_param(p) for p in s["pos"]]))
        neg = []
        if s["neg"]:
            lay.neg_responses.append(og.response("NEG-RESPONSE", f"NR.{i}", f"NR_{i}", [_param(p) for p in s["neg"]]))
            neg = [f"NR.{i}"]
        lay.diag_comms.append(og.service(f"DC.{i}", s["name"], f"RQ.{i}" if s["hasrq"] else None, [f"PR.{i}"], neg))
    docs = []
    layers = [lay]
    if ncp:
        lay.comparam_refs = [hl.comparam_ref(k, 1) for k in ([["cp1", ""], ["cpx", ""]][:ncp])]
        docs += [hl.CS_DOC, hl.subset_doc()]
    if extra_layer:
        ex = og.Layer("BASE-VARIANT", "EX", "Extra")
        ex.dops.append(og.dop("EX.d", "exd", og.dct_standard("A_UINT32", 8)))
        layers.append(ex)
    return docs + [og.container("DLC", "DLC", layers)]


# ---------------------------------------------------------------------------------------
# what the tool said

_INFO = [(re.compile(r"Properties of request parameter '([^']*)'"), "rq"),
         (re.compile(r"Properties of positive response parameter '([^']*)'"), "pos"),
         (re.compile(r"Properties of response parameter '([^']*)'"), "neg")]


def project(sd: Dict[str, Any], new_side: Dict[str, Any]) -> Dict[str, Any]:
    svc_by_name = {s["name"]: s for s in new_side["svcs"]}
    out: Dict[str, Any] = {
        "new": sorted(s.short_name for s in sd["new_services"]),
        "deleted": sorted(s.short_name for s in sd["deleted_services"]),
        "renamed": sorted([s.short_name, o] for s, o in zip(sd["changed_name_of_service"][0], sd["changed_name_of_service"][1])),
        "changed_list": [s.short_name for s in sd["changed_parameters_of_service"][0]],
        "details": [],
        # the one-line summary per changed service names every changed parameter
        "summary_mentions": [str(x).count(" parameter '") for x in sd["changed_parameters_of_service"][1]],
    }
    lists = sd["changed_parameters_of_service"]
    for k, s in enumerate(lists[0]):
        info = lists[2][k]
        i = 0
        while i < len(info):
            text = info[i]
            tab = info[i + 1] if i + 1 < len(info) and isinstance(info[i + 1], dict) else None
            i += 2 if tab is not None else 1
            if not isinstance(text, str):
                continue
            hit = None
            for (rx, w) in _INFO:
                m = rx.search(text)
                if m:
                    hit = (w, m.group(1))
                    break
            if hit is None or tab is None or "Property" not in tab:
                out["details"].append({"svc": s.short_name, "w": "list", "i": 0, "labels": ["list"], "text": text[:80]})
                continue
            w, pname = hit
            msg = svc_by_name.get(s.short_name, {}).get(w, [])
            idx = [j + 1 for j, p in enumerate(msg) if p["n"] == pname]
            out["details"].append({"svc": s.short_name, "w": w, "i": idx[0] if idx else -1, "labels": sorted(tab["Property"])})
    return out


def metrics_rows(layers_: List[Any]) -> List[List[str]]:
    """the cells of the table print_dl_metrics prints"""
    from odxtools.cli import _print_utils as pu
    got: List[Any] = []
    orig = pu.rich_print
    pu.rich_print = lambda *a, **k: got.extend(a)        # type: ignore[assignment]
    try:
        pu.print_dl_metrics(layers_)
    finally:
        pu.rich_print = orig                             # type: ignore[assignment]
    tabs = [t for t in got if hasattr(t, "columns")]
    if len(tabs) != 1:
        raise RuntimeError("no table printed")
    cols = [list(c._cells) for c in tabs[0].columns]
    return [list(r) for r in zip(*cols)]


def _init(repo: str) -> None:
    import warnings
    from .. import common
    common.REPO = common.Path(repo)
    common.import_repo()
    warnings.simplefilter("ignore")


def _quiet_print(task: Any, fn: str, arg: Any, text: Optional[List[str]] = None) -> Optional[str]:
    """the printing half of the tool must cope with every report; `text` receives what was printed"""
    import contextlib
    import io
    buf = io.StringIO()
    try:
        with contextlib.redirect_stdout(buf):
            getattr(task, fn)(arg)
        if text is not None:
            text.append(buf.getvalue())
        return None
    except Exception as e:  # noqa: BLE001
        return f"{type(e).__name__}: {str(e)[:100]}"


_SECTIONS = [("new", "New services"), ("deleted", "Deleted services"), ("renamed", "Renamed services"),
             ("changed", "Services with parameter changes")]


def printed_sections(text: str) -> Dict[str, str]:
    """what the printed layer report shows below each of its headings (up to the next heading)"""
    marks = sorted((text.find(h), k) for k, h in _SECTIONS if text.find(h) >= 0)
    out: Dict[str, str] = {}
    for j, (pos, k) in enumerate(marks):
        end = marks[j + 1][0] if j + 1 < len(marks) else len(text)
        if k == "changed":
            end_ = text.find("Detailed changes of diagnostic service", pos)
            end = end_ if end_ >= 0 else end
        out[k] = text[pos:end]
    return out


def report_omissions(text: str, got: Dict[str, Any]) -> List[List[str]]:
    """[section, service] for every service of the returned report that the printed report does not name in its section"""
    sec = printed_sections(text)
    names = {"new": got["new"], "deleted": got["deleted"], "renamed": [r[0] for r in got["renamed"]], "changed": got["changed_list"]}
    return [[k, n] for k, ns in names.items() for n in ns if not re.search(r"\b" + re.escape(n) + r"\b", sec.get(k, ""))]


def _archive(path: str, docs: List[str]) -> None:
    import zipfile
    with zipfile.ZipFile(path, "w") as z:
        for k, d in enumerate(docs):
            sfx = ".odx-cs" if "<COMPARAM-SUBSET" in d else (".odx-c" if "<COMPARAM-SPEC " in d else ".odx-d")
            z.writestr(f"doc{k}{sfx}", d)


def cli_reports(new_docs: List[str], old_docs: List[List[str]], scratch: str, variants: Any) -> Tuple[List[str], str]:
    """the command line tool on NEW with several old files (-db A B ...): the text of each report ("Changes in file ...")"""
    import argparse
    import contextlib
    import io
    import os
    from odxtools.cli import compare as cmp_
    os.makedirs(scratch, exist_ok=True)
    names = [os.path.join(scratch, "new.pdx")] + [os.path.join(scratch, f"old{k + 1}.pdx") for k in range(len(old_docs))]
    for nm, docs in zip(names, [new_docs] + old_docs):
        _archive(nm, docs)
    buf = io.StringIO()
    try:
        with contextlib.redirect_stdout(buf):
            cmp_.run(argparse.Namespace(pdx_file=names[0], database=names[1:], variants=variants, no_details=True))
    except Exception as e:  # noqa: BLE001
        return [], f"{type(e).__name__}: {str(e)[:100]}"
    finally:
        for nm in names:
            if os.path.exists(nm):
                os.remove(nm)
        with contextlib.suppress(OSError):
            os.rmdir(scratch)
    parts = buf.getvalue().split("Changes in file")[1:]
    return parts, ""


def process(args: Tuple[List[Dict[str, Any]], int, int]) -> Dict[str, Any]:
    from odxtools.cli.compare import Comparison
    recs, seed_, chunk_no = args
    rng = random.Random(seed_ * 7919 + chunk_no)
    fails: List[Tuple[str, Dict[str, Any]]] = []
    div: List[Tuple[str, Dict[str, Any]]] = []
    st = {"cases": 0, "comparisons": 0, "self_comparisons": 0, "single_edits": 0, "renames": 0, "attr_edits": 0, "dop_edits": 0,
          "db_comparisons": 0, "metrics_rows": 0, "ambiguous": 0, "changed_expected": 0, "prints": 0, "printed_names": 0, "cli_runs": 0}
    shared = Comparison()
    shared.param_detailed = True
    shared.obj_detailed = True
    cache: Dict[str, Any] = {}

    def load(side: Dict[str, Any], ids: Dict[str, str], extra: bool, ncp: int) -> Any:
        key = json.dumps([side, ids, extra, ncp], sort_keys=True)
        if key not in cache:
            if len(cache) > 40:
                cache.clear()
            cache[key] = og.load(build_docs(side, ids, extra, ncp))
        return cache[key]

    def fail(clause: str, rec: Dict[str, Any], detail: Dict[str, Any]) -> None:
        if len(fails) < 300:
            e = rec["edits"]
            fails.append((clause, {"machine": "Compare", "base": [s["name"] for s in rec["old"]["svcs"]],
                                   "edits": [[x["t"], x["a"], x["b"], x["w"], x["i"]] for x in e],
                                   "edit_kinds": sorted({x["t"] for x in e}), "nedits": len(e), **detail,
                                   "old": rec["old"], "new": rec["new"], "edits_full": e}))

    order = list(range(len(recs)))
    rng.shuffle(order)
    for k in order:
        if len(fails) >= 40:
            break           # enough to report (state that leaks between comparisons also makes every further one slower)
        rec = recs[k]
        st["cases"] += 1
        e = rec["edits"]
        st["single_edits"] += len(e) == 1
        st["renames"] += any(x["t"] == "ren" for x in e)
        st["attr_edits"] += any(x["t"] == "attr" for x in e)
        st["dop_edits"] += any(x["t"] == "dop" for x in e)
        keep_ids = rng.random() < 0.5
        ids = {x["b"]: x["a"] for x in e if x["t"] == "ren"} if keep_ids else {}
        # chains of renames: follow back to the first name
        for n_ in list(ids):
            while ids[n_] in ids:
                ids[n_] = ids[ids[n_]]
        ncp_o, ncp_n = rng.randrange(3), rng.randrange(3)
        ex_o, ex_n = rng.random() < 0.3, rng.random() < 0.3
        try:
            db_o = load(rec["old"], {}, ex_o, ncp_o)
            db_n = load(rec["new"], ids, ex_n, ncp_n)
        except Exception as ex:  # noqa: BLE001
            fail("version_does_not_load", rec, {"exc": f"{type(ex).__name__}: {str(ex)[:120]}"})
            continue
        dl_o, dl_n = db_o.diag_layers["BV"], db_n.diag_layers["BV"]
        task = shared if rng.random() < 0.7 else Comparison()
        task.param_detailed = True

        def compare(a: Any, b: Any, side_a: Dict[str, Any]) -> Optional[Dict[str, Any]]:
            st["comparisons"] += 1
            try:
                sd = task.compare_diagnostic_layers(a, b)
            except Exception as ex:  # noqa: BLE001
                fail("compare_raises", rec, {"exc": f"{type(ex).__name__}: {str(ex)[:120]}"})
                return None
            text: List[str] = []
            err = _quiet_print(task, "print_dl_changes", sd, text)
            st["prints"] += 1
            if err:
                fail("print_raises", rec, {"exc": err})
            got_ = project(sd, side_a)
            if text:
                # the report the user reads names every service of the returned one, below the heading of its kind
                missing = report_omissions(text[0], got_)
                st["printed_names"] += sum(len(got_[k_]) for k_ in ("new", "deleted", "renamed", "changed_list"))
                if missing:
                    fail("printed_report", rec, {"not_printed": missing, "got": got_})
            return got_

        # ---- a version compared with itself (the same objects, and a second load of the same documents)
        for (a, b, side) in ((dl_n, dl_n, rec["new"]), (dl_o, og.load(build_docs(rec["old"], {}, ex_o, ncp_o)).diag_layers["BV"], rec["old"])):
            st["self_comparisons"] += 1
            got = compare(a, b, side)
            if got is not None and (got["new"] or got["deleted"] or got["renamed"] or got["changed_list"]):
                fail("self_compare_reports_change", rec, {"got": got})
        # ---- new against old, old against new
        for (a, b, side, want, direction) in ((dl_n, dl_o, rec["new"], rec["report"], "new_vs_old"),
                                             (dl_o, dl_n, rec["old"], rec["swapped"], "old_vs_new")):
            got = compare(a, b, side)
            if got is None:
                continue
            if want["ambiguous"]:
                st["ambiguous"] += 1
                continue
            st["changed_expected"] += bool(want["changed"])
            base = {"direction": direction, "got": got, "expected": {k_: want[k_] for k_ in ("new", "deleted", "renamed", "changed")}}
            if got["new"] != sorted(want["new"]):
                fail("new_services", rec, base)
            if got["deleted"] != sorted(want["deleted"]):
                fail("deleted_services", rec, base)
            if got["renamed"] != sorted([list(x) for x in want["renamed"]]):
                fail("renamed_services", rec, base)
            if sorted(got["changed_list"]) != sorted(want["changed"]):
                fail("changed_services", rec, base)
            else:
                # a differing number of parameters is reported per service (the tool's wording of which list differs is not checked)
                wd = {((d["svc"], d["w"], d["i"]) if d["i"] else (d["svc"], "list", 0)): set(d["labels"]) for d in want["details"]}
                gd = {((d["svc"], d["w"], d["i"]) if d["i"] else (d["svc"], "list", 0)): set(d["labels"]) for d in got["details"]}
                per_svc = [sum(1 for d in got["details"] if d["svc"] == nm and d["i"]) for nm in got["changed_list"]]
                if got["summary_mentions"] != per_svc:
                    fail("changed_parameters_summary", rec, {**base, "mentions": got["summary_mentions"], "tables": per_svc})
                if set(wd) != set(gd):
                    fail("changed_parameter", rec, {**base, "expected_params": sorted(map(list, wd)), "got_params": sorted(map(list, gd))})
                else:
                    # the attribute that was edited is named; the full label set is implementation-shaped (divergence only)
                    for x in e if len(e) == 1 and direction == "new_vs_old" else []:
                        if x["t"] == "attr":
                            lab = _label_of(x, rec["old"])
                            if lab not in gd.get((x["a"], x["w"], x["i"]), set()):
                                fail("changed_attribute", rec, {**base, "attribute": lab,
                                                                "got_labels": sorted(gd.get((x["a"], x["w"], x["i"]), []))})
                        if x["t"] == "dop":
                            for key_, labs in gd.items():
                                if "Linked DOP object" not in labs:
                                    fail("changed_attribute", rec, {**base, "attribute": "Linked DOP object", "got_labels": sorted(labs)})
                    for key_ in wd:
                        if wd[key_] != gd[key_]:
                            div.append(("label_set", {"edits": e, "param": list(key_), "spec": sorted(wd[key_]), "real": sorted(gd[key_])}))
        # ---- database level
        st["db_comparisons"] += 1
        task.diagnostic_layer_names = {dl.short_name for db in (db_n, db_o) for dl in db.diag_layers}
        try:
            cv = task.compare_databases(db_n, db_o)
            got_new = sorted(dl.short_name for dl in cv["new_diagnostic_layers"])
            got_del = sorted(dl.short_name for dl in cv["deleted_diagnostic_layers"])
            want_new = ["Extra"] if ex_n and not ex_o else []
            want_del = ["Extra"] if ex_o and not ex_n else []
            if got_new != want_new or got_del != want_del:
                fail("database_layers", rec, {"got": [got_new, got_del], "expected": [want_new, want_del]})
            if "BV" not in cv:
                fail("database_layer_not_compared", rec, {"keys": sorted(cv)})
            elif not rec["report"]["ambiguous"]:
                got = project(cv["BV"], rec["new"])
                want = rec["report"]
                if (got["new"], got["deleted"], got["renamed"], sorted(got["changed_list"])) != (
                        sorted(want["new"]), sorted(want["deleted"]), sorted([list(x) for x in want["renamed"]]), sorted(want["changed"])):
                    fail("database_report", rec, {"got": got, "expected": {k_: want[k_] for k_ in ("new", "deleted", "renamed", "changed")}})
            err = _quiet_print(task, "print_database_changes", cv)
            if err:
                fail("print_raises", rec, {"exc": err})
        except Exception as ex:  # noqa: BLE001
            fail("compare_raises", rec, {"exc": f"{type(ex).__name__}: {str(ex)[:120]}", "level": "database"})
        # ---- the command line tool with two old files: the first is the old version, the second a copy of the new one; each
        # report compares NEW with the file it names
        if st["cases"] % 12 == 1 and not rec["report"]["ambiguous"]:
            st["cli_runs"] += 1
            want = rec["report"]
            changed = bool(want["new"] or want["deleted"] or want["renamed"] or want["changed"])
            nd, od = build_docs(rec["new"], ids, False, 0), build_docs(rec["old"], {}, False, 0)
            ed = build_docs({"svcs": [], "dops": rec["new"]["dops"]}, {}, False, 0)       # a third old file: no services at all
            parts, err = cli_reports(nd, [od, nd, ed], str(tlc.WORK / f"c18cli-{os.getpid()}"), ["BV"] if st["cli_runs"] % 2 else None)
            want_says = [changed, False, bool(rec["new"]["svcs"])]
            if err:
                fail("compare_raises", rec, {"exc": err, "level": "command line"})
            elif len(parts) != 3:
                fail("cli_reports", rec, {"reports": len(parts), "expected": 3})
            else:
                says = ["Changed diagnostic services for diagnostic layer" in p_ for p_ in parts]
                if says != want_says:
                    fail("cli_reports", rec, {"reports_change": says, "expected": want_says,
                                              "files": ["old version", "copy of the new version", "a version without services"]})
        # ---- the overview: old first, then new (same layer names, different content)
        for (db, side, ncp, ex_) in ((db_o, rec["old"], ncp_o, ex_o), (db_n, rec["new"], ncp_n, ex_n)):
            try:
                rows = metrics_rows(list(db.diag_layers))
            except Exception as ex:  # noqa: BLE001
                fail("metrics_raise", rec, {"exc": f"{type(ex).__name__}: {str(ex)[:120]}"})
                continue
            want_rows = [["BV", "BASE-VARIANT", str(len(side["svcs"])), str(len(side["dops"])), str(ncp)]]
            if ex_:
                want_rows.append(["Extra", "BASE-VARIANT", "0", "1", "0"])
            st["metrics_rows"] += len(rows)
            if rows != want_rows:
                fail("metrics", rec, {"got": rows, "expected": want_rows, "comparams": ncp})
    return {"fails": fails, "div": div[:20], "ndiv": len(div), "stats": st}


def _label_of(x: Dict[str, Any], old: Dict[str, Any]) -> str:
    p = next(s for s in old["svcs"] if s["name"] == x["a"])[x["w"]][x["i"] - 1]
    return {"bp": "Byte position", "bits": "Bit Length", "sem": "Semantic", "dt": "Data type", "dop": "Linked DOP object",
            "cv": "Value" if p["k"] == "CONST" else "Constant value"}[x["b"]]


# ---------------------------------------------------------------------------------------
# the overview on layer hierarchies (Layers.tla): inherited services, data objects, communication parameters

def process_hier(cfgs: List[Dict[str, Any]]) -> Dict[str, Any]:
    from odxtools.exceptions import OdxError
    fails: List[Tuple[str, Dict[str, Any]]] = []
    st = {"hierarchies": 0, "hier_rows": 0, "inherited_counted": 0, "comparams_counted": 0}
    for cfg in cfgs:
        if cfg["clash"]:
            continue
        try:
            db = og.load(hl.build_docs(cfg))
        except Exception as ex:  # noqa: BLE001
            fails.append(("version_does_not_load", {"machine": "Layers", "types": cfg["types"], "parents": cfg["parents"], "defs": cfg["defs"],
                                                    "ni": cfg["ni"], "cps": cfg["cps"], "exc": f"{type(ex).__name__}: {str(ex)[:100]}"}))
            continue
        st["hierarchies"] += 1
        n = len(cfg["types"])
        lays = [db.diag_layers[f"L{i}"] for i in range(1, n + 1)]
        try:
            rows = metrics_rows(lays)
        except Exception as ex:  # noqa: BLE001
            fails.append(("metrics_raise", {"machine": "Layers", "types": cfg["types"], "exc": f"{type(ex).__name__}: {str(ex)[:100]}"}))
            continue
        for i in range(1, n + 1):
            esd = cfg["types"][i - 1] == "ECU-SHARED-DATA"
            visible = sum(1 for (_n, with_ni, _w) in cfg["view"][i - 1] if with_ni != 0)
            ncp = 0 if esd else sum(1 for (_k, own) in (cfg["eff"][i - 1] or []) if own != 0)
            # the name that is a service in odd layers and a job in even ones counts where the visible definition is a service
            nsvc = visible + sum(1 for (_n, with_ni, _w) in cfg["view"][i - 1] if with_ni % 2)
            want = [f"L{i}", cfg["types"][i - 1], str(nsvc), str(visible), str(ncp)]
            st["hier_rows"] += 1
            st["inherited_counted"] += visible > len(cfg["defs"][i - 1])
            st["comparams_counted"] += ncp > 0
            if rows[i - 1] != want:
                fails.append(("metrics", {"machine": "Layers", "types": cfg["types"], "parents": cfg["parents"], "defs": cfg["defs"],
                                          "ni": cfg["ni"], "cps": cfg["cps"], "layer": i, "got": rows[i - 1], "expected": want,
                                          "comparams": ncp}))
    return {"fails": fails[:300], "stats": st}


def check(tier: str, replay: Optional[str] = None) -> int:
    import_repo()
    v = Verdicts(PROP, tier)
    res = tlc.run("MC_Compare.tla", f"MC_Compare_{tier}.cfg", timeout=3000)
    if not res.ok:
        raise tlc.MachineryError(f"TLC failed on Compare: {res.violated} {res.errors[:3]}\n{res.stdout[-2000:]}")
    recs = list(res.json_lines())
    print(f"[C18] TLC: {res.distinct} states, {len(recs)} version pairs, {res.wall_s:.1f}s", flush=True)
    total_pairs = len(recs)
    case = None
    if replay:
        case = json.loads(open(replay).read())
        if case.get("machine") == "Compare":
            recs = [r for r in recs if r["old"] == case["old"] and r["new"] == case["new"]]
            if not recs:
                raise tlc.MachineryError("the version pair of the replay file is not in the model")
    elif tier == "thorough":
        # every pair with at most one edit, and a seeded sample of the two-edit sessions
        rng = random.Random(seed())
        one = [r for r in recs if len(r["edits"]) <= 1]
        two = [r for r in recs if len(r["edits"]) > 1]
        recs = one + rng.sample(two, min(len(two), 8000))
    stats: Dict[str, int] = {}
    ndiv = 0
    divs: List[Tuple[str, Dict[str, Any]]] = []
    ctx = mp.get_context("spawn")
    if not (case and case.get("machine") == "Layers"):
        n = min(16, max(1, len(recs) // 8))
        size = (len(recs) + n - 1) // n
        chunks = [(recs[i:i + size], seed(), j) for j, i in enumerate(range(0, len(recs), size))]
        with ctx.Pool(len(chunks), initializer=_init, initargs=(str(REPO),)) as pool:
            outs = pool.map(process, chunks)
        for o in outs:
            for (clause, c) in o["fails"]:
                v.fail(clause, c)
            for (what, d) in o["div"]:
                divs.append((what, d))
            ndiv += o["ndiv"]
            for k, x in o["stats"].items():
                stats[k] = stats.get(k, 0) + x
    # hierarchies
    design: Dict[str, Any] = {}
    hstates = 0
    cfgs: List[Dict[str, Any]] = []
    if not (case and case.get("machine") == "Compare"):
        for (name, types, names, cpkeys, rev) in hl.templates(tier):
            if tier == "quick" and name not in ("chain", "two_names", "comparams", "comparams_shared", "comparams_two_subsets"):
                continue
            if tier == "thorough" and name in ("two_groups", "shared_chain", "two_names_rev", "comparams_rev", "two_protocols_shared"):
                continue
            r2, c2 = hl.run_model(name, types, names, cpkeys, rev)
            design[name] = {"distinct": r2.distinct, "configurations": len(c2)}
            hstates += r2.distinct
            cfgs += c2
        if case:
            cfgs = [c for c in cfgs if (c["types"], c["parents"], c["defs"], c["ni"], c["cps"]) ==
                    (case["types"], case["parents"], case["defs"], case["ni"], case["cps"])]
        n = min(16, max(1, len(cfgs) // 20))
        size = (len(cfgs) + n - 1) // n
        hchunks = [cfgs[i:i + size] for i in range(0, len(cfgs), size)]
        with ctx.Pool(len(hchunks), initializer=_init, initargs=(str(REPO),)) as pool:
            houts = pool.map(process_hier, hchunks)
        for o in houts:
            for (clause, c) in o["fails"]:
                v.fail(clause, c)
            for k, x in o["stats"].items():
                stats[k] = stats.get(k, 0) + x
    for (what, d) in divs[:50]:
        v.diverge(what, d)
    print(f"[C18] replay: {stats} divergences={ndiv}", flush=True)
    if not replay:
        for k in ("renames", "attr_edits", "dop_edits", "changed_expected", "metrics_rows", "inherited_counted", "comparams_counted", "printed_names", "cli_runs"):
            if not stats.get(k):
                v.vacuous(f"vacuity: {k} = 0 in {stats}")
    cov = {"states": res.distinct + hstates, "transitions": res.generated, "traces_validated_against_impl": stats.get("cases", 0),
           "evaluations": stats.get("comparisons", 0) + stats.get("db_comparisons", 0) + stats.get("metrics_rows", 0) + stats.get("hier_rows", 0),
           "distinct_nontrivial": stats.get("cases", 0),
           "rule": "TLC: every base of <= 2 (quick) / 3 (thorough) services of a 7-service alphabet x every session of <= 1 (quick) / "
                   "2 (thorough) edits (add at every position, delete, rename, one attribute of one parameter of request / positive / "
                   "negative response, one data object in place); quick replays all pairs, thorough all pairs with <= 1 edit plus a "
                   f"seeded sample of 8000 of the two-edit pairs (of {total_pairs} pairs); each pair compared both ways, each version with "
                   "itself, at layer and database level, in one process per chunk through a shared Comparison object in shuffled "
                   "order; overview rows read back for every version and for the hierarchies of Layers.tla; distinct = version pairs",
           "exhaustive": tier == "quick", "design_hierarchies": design, "replay": stats,
           "samples": [{"edits": recs[len(recs) // 2]["edits"], "report": recs[len(recs) // 2]["report"]}] if recs else []}
    return v.finish(cov, ["TLC and the CommunityModules",
                          "Compare.tla: services are matched by name; a rename is recognised by the constant request prefix among the "
                          "names that exist on one side only (a service without request cannot be recognised: deletion + addition)",
                          "the ODX emitter and the library's loader", "rich tables are read through their column cells"])
