"""C15 - decided by spec/Layers.tla; see harness/layers.py."""
from typing import Optional

from .. import layers


def check(tier: str, replay: Optional[str] = None) -> int:
    return layers.check("C15", tier, replay)
