"""C17 - strict mode is honoured everywhere, lenient mode changes nothing valid.

spec/StrictMode.tla: TLC enumerates every history of Flip / Op(k) steps up to a bound over a catalogue of operations
(valid ones and mode-sensitive ones from the codec, compu and loader machines).  Every history is executed inside this
one Python process (the flag is process wide) and recorded; TLC validates the recordings against StrictModeTrace.tla.
The odxraise hook reports the flag value each odxraise() call saw (stale copies) and which call sites were reached.
"""
from __future__ import annotations

import hashlib
import os
import json
import re
import sys
from pathlib import Path
from typing import Any, Callable, Dict, List, Optional, Tuple

from .. import odxgen as og
from .. import tlc
from ..common import REPO, Verdicts, import_repo

PROP = "C17"


def build_ops() -> Tuple[Dict[str, Callable[[], Any]], List[str], List[str], List[str]]:
    lay = og.Layer("BASE-VARIANT", "BV", "BV")
    lay.dops += [
        og.dop("D.u8", "u8", og.dct_standard("A_UINT32", 8)),
        og.dop("D.b16", "b16", og.dct_standard("A_BYTEFIELD", 16), ptype="A_BYTEFIELD"),
        og.dop("D.t", "t", og.dct_minmax("A_UTF8STRING", 0, 3, "ZERO"), ptype="A_UTF8STRING"),
        og.dop("D.a16", "a16", og.dct_standard("A_ASCIISTRING", 16), ptype="A_ASCIISTRING"),
        og.dop("D.i8", "i8", og.dct_standard("A_INT32", 8), ptype="A_INT32"),
        og.dop("D.lin", "lin", og.dct_standard("A_UINT32", 8), compu=og.compu_method("LINEAR", [
            og.compu_scale(lower=og.limit("LOWER-LIMIT", 0, "CLOSED"), upper=og.limit("UPPER-LIMIT", 10, "CLOSED"),
                           num=[0, 2], den=[1])])),
    ]
    lay.structures.append(og.structure("ST.s", "s", [og.p_value("a", "D.u8"), og.p_value("b", "D.u8")]))
    sid = og.p_const8("sid", 0x22, bytepos=0)
    lay.requests += [
        og.request("RQ.1", "R1", [sid, og.p_value("p", "D.u8")]),
        og.request("RQ.2", "R2", [sid, og.p_value("p", "D.b16")]),
        og.request("RQ.3", "R3", [sid, og.p_value("p", "D.t")]),
        og.request("RQ.4", "R4", [sid, og.p_value("p", "ST.s")]),
        og.request("RQ.5", "R5", [sid, og.p_value("p", "D.a16")]),
        og.request("RQ.6", "R6", [sid, og.p_value("p", "D.i8")]),
        og.request("RQ.7", "R7", [sid, og.p_value("p", "D.lin")]),
        og.request("RQ.8", "R8", [sid, og.p_physconst("c", 7, "D.u8"), og.p_value("p", "D.u8")]),
    ]
    lay.dops.append(og.dop("D.bad", "badenc", og.dct_standard("A_ASCIISTRING", 16, enc="BCD-P"), ptype="A_ASCIISTRING"))
    lay.requests.append(og.request("RQ.9", "R9", [sid, og.p_value("p", "D.bad")]))
    lay.pos_responses.append(og.response("POS-RESPONSE", "PR.m", "PRm", [og.p_const8("sid", 0x62, bytepos=0),
                                                                          og.p_matching("echo", 1, 1, bytepos=1)]))
    # a service whose two negative responses differ only in their NRC-CONST
    lay.requests.append(og.request("RQ.n", "Rn", [og.p_const8("sid", 0x31, bytepos=0), og.p_value("p", "D.u8")]))
    for (nm, nrc) in (("a", 0x10), ("b", 0x11)):
        lay.neg_responses.append(og.response("NEG-RESPONSE", f"NR.{nm}", f"NR_{nm}", [
            og.p_const8("sid", 0x7F, bytepos=0), og.p_const8("rq_sid", 0x31, bytepos=1),
            og.p_nrc("nrc", [nrc], og.dct_standard("A_UINT32", 8), bytepos=2)]))
    lay.diag_comms.append(og.service("DC.n", "svcn", "RQ.n", [], ["NR.a", "NR.b"]))
    lay.diag_comms.append(og.service("DC.1", "svc1", "RQ.1"))
    db = og.load([og.container("DLC", "DLC", [lay])])
    bv = db.base_variants[0]
    R = bv.diag_layer_raw.requests
    PRm = bv.diag_layer_raw.positive_responses.PRm

    def cli(argv: List[str]) -> Any:
        import odxtools.cli.main as cm
        old = sys.argv
        sys.argv = ["odxtools"] + argv
        import contextlib
        import io
        try:
            with contextlib.redirect_stdout(io.StringIO()), contextlib.redirect_stderr(io.StringIO()):
                cm.start_cli()
        except SystemExit as e:
            return f"exit({e.code})"          # a tool may end the process; the mode must be restored all the same
        finally:
            sys.argv = old
    # a small archive for the command line tools (the shipped example takes 50 ms per start)
    import zipfile
    tiny = tlc.WORK / f"c17-{os.getpid()}-tiny.pdx"
    tlc.WORK.mkdir(parents=True, exist_ok=True)
    with zipfile.ZipFile(tiny, "w") as z:
        z.writestr("DLC2.odx-d", og.container("DLC2", "DLC2", [_mini_layer(dangling=False)]))
        z.writestr("index.xml", "<CATALOG><SHORT-NAME>tiny</SHORT-NAME></CATALOG>")
    import atexit
    atexit.register(lambda: tiny.exists() and tiny.unlink())
    # one decode state that lives as long as the catalogue (created in strict mode), reused by every call of its operation
    from odxtools.decodestate import DecodeState
    text_dct = R.R3.parameters[1].dop.diag_coded_type
    old_state = DecodeState(coded_message=b"\xff\xfe")

    def dec_with_old_state() -> Any:
        old_state.cursor_byte_position = 0
        old_state.cursor_bit_position = 0
        return text_dct.decode_from_pdu(old_state)
    lin = bv.diag_data_dictionary_spec.data_object_props["lin"].compu_method
    good_doc = og.container("DLC2", "DLC2", [_mini_layer(dangling=False)])
    bad_doc = og.container("DLC3", "DLC3", [_mini_layer(dangling=True)])
    ops: Dict[str, Callable[[], Any]] = {
        # valid
        "enc_ok": lambda: R.R1.encode(p=5),
        "dec_ok": lambda: R.R1.decode(b"\x22\x05"),
        "enc_struct_ok": lambda: R.R4.encode(p={"a": 1, "b": 2}),
        "enc_text_ok": lambda: R.R3.encode(p="ab"),
        "dec_text_ok": lambda: R.R3.decode(b"\x22\x61\xc3\xa4"),
        "compu_ok": lambda: (lin.convert_internal_to_physical(4), lin.convert_physical_to_internal(8)),
        "layer_decode_ok": lambda: [(m.service.short_name, dict(m.param_dict)) for m in bv.decode(b"\x22\x05")],
        "load_ok": lambda: sorted(x.short_name for x in og.load([good_doc]).diag_layers),
        "layer_decode_nrc": lambda: [(m.service.short_name, m.coding_object.short_name, dict(m.param_dict))
                                     for m in bv.decode(b"\x7f\x31\x11")],
        # sensitive: an error in strict mode, downgraded in non-strict mode
        "enc_range": lambda: R.R1.encode(p=300),
        "enc_unknown": lambda: R.R1.encode(p=5, zz=1),
        "enc_toolong": lambda: R.R2.encode(p=b"\x01\x02\x03"),
        "enc_short_bytes": lambda: R.R2.encode(p=b"\x01"),
        "dec_badutf8": lambda: R.R3.decode(b"\x22\xff\xfe"),
        "dec_badutf8_old_state": dec_with_old_state,
        "enc_const": lambda: R.R1.encode(p=5, sid=0x23),
        "enc_txtlong": lambda: R.R3.encode(p="abcdef"),
        "enc_struct_unknown": lambda: R.R4.encode(p={"a": 1, "b": 2, "c": 3}),
        "enc_ascii_long": lambda: R.R5.encode(p="abc"),
        "enc_unencodable_char": lambda: R.R5.encode(p="a\u20ac"),      # no such character in the object's encoding
        "enc_int_range": lambda: R.R6.encode(p=200),
        "dec_lin_range": lambda: R.R7.decode(b"\x22\x30"),
        "dec_physconst": lambda: R.R8.decode(b"\x22\x08\x01"),
        "enc_neg": lambda: R.R1.encode(p=-1),
        "load_dangling": lambda: sorted(x.short_name for x in og.load([bad_doc]).diag_layers),
        "enc_illegal_encoding": lambda: R.R9.encode(p="ab"),
        "enc_matching_no_request": lambda: PRm.encode(),
        # neutral: the command line entry point with a tool that fails; it must restore the mode it found
        "cli_fail_nostrict": lambda: cli(["--no-strict", "list", "/nonexistent/file.pdx"]),
        "cli_fail_strict": lambda: cli(["list", "/nonexistent/file.pdx"]),
        # ... with a tool that completes, and with one that ends through sys.exit()
        "cli_ok_nostrict": lambda: cli(["--no-strict", "list", str(tiny)]),
        "cli_exit_nostrict": lambda: cli(["--no-strict", "snoop", "--variant", "no_such_variant", str(tiny)]),
    }
    neutral = ["cli_fail_nostrict", "cli_fail_strict", "cli_ok_nostrict", "cli_exit_nostrict"]
    valid = ["enc_ok", "dec_ok", "enc_struct_ok", "enc_text_ok", "dec_text_ok", "compu_ok", "layer_decode_ok", "load_ok",
             "layer_decode_nrc"]
    sensitive = [k for k in ops if k not in valid and k not in neutral]
    return ops, valid, sensitive, neutral


def _mini_layer(dangling: bool) -> og.Layer:
    lay = og.Layer("BASE-VARIANT", "BVm", "BVm")
    lay.dops.append(og.dop("Dm.u8", "u8", og.dct_standard("A_UINT32", 8)))
    lay.requests.append(og.request("RQm.1", "Rm", [og.p_const8("sid", 0x10, bytepos=0),
                                                    og.p_value("p", "Dm.nowhere" if dangling else "Dm.u8")]))
    return lay


def digest(x: Any) -> str:
    return hashlib.sha1(repr(_norm(x)).encode()).hexdigest()[:12]


def _norm(x: Any) -> Any:
    if isinstance(x, (bytes, bytearray)):
        return ("b", bytes(x).hex())
    if isinstance(x, dict):
        return ("d", tuple((k, _norm(v)) for k, v in x.items()))
    if isinstance(x, (list, tuple)):
        return ("l", tuple(_norm(v) for v in x))
    return x


class Recorder:
    def __init__(self) -> None:
        self.seen: List[bool] = []
        self.sites: set = set()

    def sink(self, event: str, fields: Dict[str, Any]) -> None:
        if event == "odxraise":
            self.seen.append(bool(fields["strict"]))
            f = sys._getframe(3)   # sink <- emit <- odxraise <- caller (possibly odxassert/odxrequire)
            if f.f_code.co_name in ("odxassert", "odxrequire"):
                f = f.f_back
            self.sites.add(f"{Path(f.f_code.co_filename).name}:{f.f_lineno}")


def run_history(hist: List[str], ops: Dict[str, Callable[[], Any]], rec: Recorder, tid: int, valid: List[str],
                sensitive: List[str]) -> List[Dict[str, Any]]:
    import odxtools.exceptions as ex
    from odxtools.exceptions import OdxError
    evs: List[Dict[str, Any]] = [{"tid": tid, "ev": "init", "valid": valid, "sensitive": sensitive}]
    saved = ex.strict_mode
    ex.strict_mode = True
    try:
        for step in hist:
            if step == "flip":
                ex.strict_mode = not ex.strict_mode
                evs.append({"tid": tid, "ev": "flip", "to": ex.strict_mode})
                continue
            rec.seen = []
            res, dg = "ok", ""
            try:
                dg = digest(ops[step]())
            except OdxError:
                res = "liberr"
            except BaseException as e:  # noqa: BLE001  (the CLI may call exit())
                res, dg = "foreign", type(e).__name__
            want = sum(1 for x in evs if x["ev"] == "flip") % 2 == 0
            evs.append({"tid": tid, "ev": "op", "k": step, "res": res, "digest": dg, "seen": list(rec.seen),
                        "mode_after": bool(ex.strict_mode)})
            ex.strict_mode = want   # a leaked mode is reported once, not propagated
    finally:
        ex.strict_mode = saved
    return evs


def count_sites() -> int:
    n = 0
    for p in (REPO / "odxtools").rglob("*.py"):
        n += len(re.findall(r"\b(?:odxraise|odxassert|odxrequire)\(", p.read_text()))
    return n


def check(tier: str, replay: Optional[str] = None) -> int:
    import logging
    import_repo()
    logging.disable(logging.CRITICAL)   # non-strict mode logs every downgraded problem
    import odxtools._verif as hook
    v = Verdicts(PROP, tier)
    try:
        ops, valid, sensitive, neutral = build_ops()
    except tlc.MachineryError:
        raise
    except Exception as e:  # noqa: BLE001
        # the (valid) documents of the catalogue cannot be loaded in strict mode
        v.fail("valid_fails", {"machine": "StrictMode", "history": [], "op": "load of the catalogue",
                               "exc": f"{type(e).__name__}: {str(e)[:160]}"})
        return v.finish({"states": 0, "transitions": 0, "traces_validated_against_impl": 0, "samples": []},
                        ["the catalogue could not be built"])
    rec = Recorder()
    hook.set_sink(rec.sink)
    if not hook.ENABLED:
        raise tlc.MachineryError("the odxraise hook is not enabled (ODXTOOLS_VERIF)")
    stats: Dict[str, Any] = {"histories": 0, "steps": 0}
    if replay:
        case = json.loads(open(replay).read())
        hists = [case["history"]]
        res = None
        states = trans = 1
    else:
        maxlen = 3 if tier == "quick" else 4
        deep = 5 if tier == "quick" else 7
        wd = tlc.workdir("strict")
        try:
            q = lambda xs: "{" + ", ".join(f'"{x}"' for x in xs) + "}"   # noqa: E731
            (wd / "MCSM.tla").write_text("---- MODULE MCSM ----\nEXTENDS StrictMode, Json\n"
                                         "Emit == Len(hist) = MaxLen => PrintT(ToJson(hist))\n====\n")
            hists = []
            states = trans = 0
            for (ml, single) in ((maxlen, "FALSE"), (deep, "TRUE")):
                (wd / "MCSM.cfg").write_text(
                    f"SPECIFICATION Spec\nCONSTANTS\n  Valid = {q(valid)}\n  Sensitive = {q(sensitive)}\n  Neutral = {q(neutral)}\n"
                    f"  MaxLen = {ml}\n  SingleOp = {single}\nINVARIANT ModeIsParityOfFlips\nINVARIANT LenientChangesNothingValid\n"
                    "INVARIANT FlipIsImmediate\nINVARIANT Emit\n")
                res = tlc.run("MCSM.tla", "MCSM.cfg", cwd=wd)
                if not res.ok:
                    raise tlc.MachineryError(f"TLC failed on StrictMode: {res.violated} {res.errors[:3]}\n{res.stdout[-2000:]}")
                hs = [list(h) for h in res.json_lines()]
                if single == "FALSE" and len(hs) != (len(ops) + 1) ** ml:
                    raise tlc.MachineryError(f"{len(hs)} histories, expected {(len(ops) + 1) ** ml}")
                hists += hs
                states += res.distinct
                trans += res.generated
        finally:
            tlc.rmtree(wd)
    wd = tlc.workdir("stricttrace")
    try:
        tf = wd / "trace.ndjson"
        n = 0
        starts: Dict[int, int] = {}
        with open(tf, "w") as f:
            for tid, h in enumerate(hists, 1):
                starts[tid] = n + 1
                for ev in run_history(h, ops, rec, tid, valid, sensitive):
                    f.write(json.dumps(ev) + "\n")
                    n += 1
                stats["histories"] += 1
                stats["steps"] += len(h)
        (wd / "T.cfg").write_text("SPECIFICATION TraceSpec\nPOSTCONDITION TraceAccepted\nCHECK_DEADLOCK FALSE\n")
        tres = tlc.run("StrictModeTrace.tla", str(wd / "T.cfg"), workers=1, env={"TRACE_FILE": str(tf)}, timeout=3000)
        if not tres.ok or tres.distinct != n + 1:
            raise tlc.MachineryError(f"StrictMode trace not consumed ({tres.distinct} states, {n} lines) {tres.errors[:3]}\n"
                                     f"{tres.stdout[-1500:]}")
        seen = set()
        for val in tres.values():
            if isinstance(val, tuple) and len(val) == 4 and val[0] == "V":
                tid, line, clause = int(val[1]), int(val[2]), str(val[3])
                h = hists[tid - 1]
                idx = line - starts[tid] - 1
                key = (clause, h[idx] if 0 <= idx < len(h) else "?")
                if key in seen:
                    continue
                seen.add(key)
                v.fail(clause, {"machine": "StrictMode", "history": h[:idx + 1], "op": key[1]})
    finally:
        tlc.rmtree(wd)
        hook.set_sink(None)
    total_sites = count_sites()
    cov = {"states": states if res else 1, "transitions": trans if res else 1,
           "traces_validated_against_impl": stats["histories"], "evaluations": stats["steps"],
           "distinct_nontrivial": stats["histories"],
           "rule": "every history of Flip/Op steps up to the bound over the catalogue (8 valid, 14 mode-sensitive operations of "
                   "encode, decode, compu conversion, layer decode and database load) executed in one process and validated "
                   "by TLC; distinct = histories",
           "exhaustive": True, "catalogue": {"valid": valid, "sensitive": sensitive, "neutral": neutral},
           "odxraise_sites_reached": len(rec.sites), "odxraise_sites_present": total_sites,
           "samples": [hists[len(hists) // 2]]}
    return v.finish(cov, ["TLC and the CommunityModules", "a mode-sensitive operation is expected to COMPLETE in non-strict mode "
                          "(the catalogue only contains operations for which odxtools documents a continuation)",
                          "the odxraise hook (ODXTOOLS_VERIF=1) for the stale-flag clause and the site count"])
