"""bin/check Cxx [--tier quick|thorough] [--replay path]: exit 0 held, 1 violation, 2 machinery failure."""
from __future__ import annotations

import argparse
import importlib
import os
import sys
import traceback
import warnings


def main() -> int:
    ap = argparse.ArgumentParser()
    ap.add_argument("prop")
    ap.add_argument("--tier", default=os.environ.get("VERIF_TIER", "quick"), choices=["quick", "thorough"])
    ap.add_argument("--replay", default=None)
    a = ap.parse_args()
    if a.replay:
        os.environ["VERIF_REPLAYING"] = "1"      # keep the replay files of earlier runs
    warnings.simplefilter("ignore")  # checks that care about OdxWarning record them explicitly
    try:
        mod = importlib.import_module(f"harness.checks.{a.prop.lower()}")
    except ModuleNotFoundError:
        print(f"no check for {a.prop}", file=sys.stderr)
        return 2
    try:
        return int(mod.check(a.tier, a.replay))
    except Exception:  # noqa: BLE001
        traceback.print_exc()
        print(f"MACHINERY-FAILURE property={a.prop}", file=sys.stderr)
        return 2


if __name__ == "__main__":
    sys.exit(main())
