"""Compu methods: TLC-enumerated configurations (spec/Compu.tla) -> ODX XML -> real CompuMethod objects -> comparison.

Used by C07 (all clauses) and C03 (the injective round trip).
"""
from __future__ import annotations

import math
from fractions import Fraction
from typing import Any, Dict, List, Optional, Tuple

from . import odxgen as og
from . import tlc

NONE = -999
ODXTYPE = {"int": "A_INT32", "uint": "A_UINT32", "float": "A_FLOAT64", "text": "A_UNICODE2STRING"}


def run_model(tier: str) -> Tuple[tlc.TlcResult, List[Dict[str, Any]]]:
    res = tlc.run("MC_Compu.tla", f"MC_Compu_{tier}.cfg", timeout=3000)
    if not res.ok or res.distinct == 0:
        raise tlc.MachineryError(f"TLC failed on Compu: {res.violated} {res.errors[:3]}\n{res.stdout[-3000:]}")
    recs = list(res.json_lines())
    if 2 * len(recs) + 1 != res.distinct:
        raise tlc.MachineryError(f"{len(recs)} records for {res.distinct} states")
    return res, recs


def _lim(tagname: str, l: Dict[str, Any]) -> Optional[str]:
    k = l["k"]
    if k == "absent":
        return None
    if k == "INFINITE":
        return og.limit(tagname, None, "INFINITE")
    if k == "INFINITEV":
        return og.limit(tagname, l["v"], "INFINITE")
    if k == "none":
        return og.limit(tagname, l["v"], None)
    return og.limit(tagname, l["v"], k)


def _scale(cat: str, s: Dict[str, Any]) -> str:
    kw: Dict[str, Any] = {"lower": _lim("LOWER-LIMIT", s["lo"]), "upper": _lim("UPPER-LIMIT", s["hi"])}
    if s["civ"] != NONE:
        kw["inverse_v"] = s["civ"]
    if cat == "TAB-INTP":
        kw["const_v"] = s["pp"]
    elif cat == "TEXTTABLE":
        kw["const_vt"] = s["txt"]
    else:
        kw["num"] = list(s["num"])
        kw["den"] = list(s["den"])
    return og.compu_scale(**kw)


def compu_xml(cm: Dict[str, Any]) -> str:
    cat = cm["cat"]
    if cat in ("IDENTICAL",):
        return og.compu_method(cat)
    if cat == "COMPUCODE":
        return og.compu_method(cat)
    scales = [_scale(cat, s) for s in cm["scales"]]
    inv = [_scale(cat, s) for s in cm["inv"]] if cm["inv"] else None
    body = f"<CATEGORY>{cat}</CATEGORY>"
    inner = og.tag("COMPU-SCALES", "".join(scales))
    if cm["dflt"]:
        inner += og.tag("COMPU-DEFAULT-VALUE", f"<VT>{cm['dflt']}</VT>")
    body += og.tag("COMPU-INTERNAL-TO-PHYS", inner)
    inner2 = ""
    if inv:
        inner2 += og.tag("COMPU-SCALES", "".join(inv))
    if cm["dfltinv"] != NONE:
        inner2 += og.tag("COMPU-DEFAULT-VALUE", f"<V>{cm['dfltinv']}</V>")
    if inner2:
        body += og.tag("COMPU-PHYS-TO-INTERNAL", inner2)
    return og.tag("COMPU-METHOD", body)


class Broken:
    """stands for a configuration the library could not even load"""

    def __init__(self, exc: str) -> None:
        self.exc = exc


def build(cms: List[Dict[str, Any]]) -> List[Any]:
    """All configurations as DOPs of one layer; returns the real CompuMethod objects in order (a configuration that cannot
    be loaded is identified by loading them one by one and returned as Broken)."""
    try:
        return _build(cms)
    except Exception:  # noqa: BLE001
        if len(cms) == 1:
            raise
    out: List[Any] = []
    for cm in cms:
        try:
            out.append(_build([cm])[0])
        except Exception as e:  # noqa: BLE001
            out.append(Broken(f"{type(e).__name__}: {str(e)[:100]}"))
    return out


def _build(cms: List[Dict[str, Any]]) -> List[Any]:
    lay = og.Layer("BASE-VARIANT", "BV", "BV")
    for n, cm in enumerate(cms):
        bits = 64 if cm["it"] == "float" else 32
        lay.dops.append(og.dop(f"DOP.{n}", f"dop{n}", og.dct_standard(ODXTYPE[cm["it"]], bits), compu=compu_xml(cm),
                               ptype=ODXTYPE[cm["pt"]]))
    db = og.load([og.container("DLC", "DLC", [lay])])
    dops = db.base_variants[0].diag_data_dictionary_spec.data_object_props
    return [dops[f"dop{n}"].compu_method for n in range(len(cms))]


def pyval(p: List[Any]) -> Any:
    n, d = int(p[0]), int(p[1])
    if len(p) > 2 and p[2] == "int" and d == 1:
        return n
    return n / d


def nearest(q: Fraction) -> Tuple[int, ...]:
    f = math.floor(q)
    r = q - f
    if 2 * r < 1:
        return (f,)
    if 2 * r > 1:
        return (f + 1,)
    return (f, f + 1)


def num_matches(real: Any, q: Fraction, typ: str) -> bool:
    if isinstance(real, bool) or not isinstance(real, (int, float)):
        return False
    if typ in ("int", "uint"):
        return isinstance(real, int) and real in nearest(q)
    if isinstance(real, float) and (math.isnan(real) or math.isinf(real)):
        return False
    return abs(Fraction(real) - q) <= Fraction(1, 10**9) * max(1, abs(q))


def call(fn: Any, *a: Any) -> Tuple[Any, str, bool]:
    """(result, exception class name, is library error)"""
    from odxtools.exceptions import OdxError
    try:
        return fn(*a), "", False
    except Exception as e:  # noqa: BLE001
        return None, type(e).__name__, isinstance(e, OdxError)


def compare(cm: Dict[str, Any], rec: Dict[str, Any], real: Any) -> List[Tuple[str, Dict[str, Any]]]:
    """All clause failures of one configuration: [(clause, detail)]."""
    out: List[Tuple[str, Dict[str, Any]]] = []
    if isinstance(real, Broken):
        return [("exception", {"op": "load", "exc": real.exc})]
    it, pt, cat = cm["it"], cm["pt"], cm["cat"]
    inj = bool(rec["injective"])
    images: List[Fraction] = []
    for e in rec["itab"]:
        x = pyval(e["x"])
        r = e["r"]
        v, exc, _ = call(real.is_valid_internal_value, x)
        if exc:
            out.append(("exception", {"op": "is_valid_internal_value", "x": x, "exc": exc}))
            continue
        if bool(v) != bool(r["ok"]):
            out.append(("valid_internal", {"x": x, "xtype": type(x).__name__, "expected": r["ok"], "got": v}))
            continue
        if not r["ok"]:
            continue
        y, exc, lib = call(real.convert_internal_to_physical, x)
        if exc:
            out.append(("i2p_raises", {"x": x, "exc": exc, "lib": lib}))
            continue
        if pt == "text":
            if y != r["txt"]:
                out.append(("i2p", {"x": x, "expected": r["txt"], "got": y}))
            okv = y == r["txt"]
        else:
            q = Fraction(int(r["q"][0]), int(r["q"][1]))
            images.append(q)
            okv = num_matches(y, q, pt)
            if not okv:
                out.append(("i2p", {"x": x, "expected": f"{q}" + (" rounded to nearest" if pt != "float" else ""), "got": y,
                                    "got_type": type(y).__name__}))
        # a conversion that is injective on the reals need not be injective once an exact tie (x.5) is rounded: the
        # statement's "injective" presupposes a well-defined rounded value, so ties are exempt from the round trip
        tie = pt in ("int", "uint") and len(nearest(Fraction(int(r["q"][0]), int(r["q"][1])))) == 2
        if inj and okv and not tie:
            pv, exc, _ = call(real.is_valid_physical_value, y)
            if exc or not pv:
                out.append(("image_valid", {"x": x, "y": y, "exc": exc}))
                continue
            x2, exc, lib = call(real.convert_physical_to_internal, y)
            same = (not exc) and (x2 == x if it != "float" else num_matches(x2, Fraction(x), "float"))
            if not same:
                out.append(("i2p2i", {"x": x, "y": y, "back": x2, "exc": exc}))
    lo_img, hi_img = (min(images), max(images)) if images else (None, None)
    for e in rec["ptab"]:
        y = pyval(e["y"])
        cands = [Fraction(int(c[0]), int(c[1])) for c in e["c"]]
        pv, exc, _ = call(real.is_valid_physical_value, y)
        if exc:
            out.append(("exception", {"op": "is_valid_physical_value", "y": y, "exc": exc}))
            continue
        yq = Fraction(int(e["y"][0]), int(e["y"][1]))
        must = bool(rec["moncont"]) and cat == "SCALE-LINEAR" and lo_img is not None and lo_img <= yq <= hi_img
        if not pv and not must:
            continue
        x, exc, lib = call(real.convert_physical_to_internal, y)
        if exc:
            out.append(("valid_phys_converts" if pv else "moncont_encodes", {"y": y, "exc": exc, "lib": lib}))
            continue
        if cands and not any(num_matches(x, c, it) for c in cands):
            out.append(("p2i", {"y": y, "expected_one_of": [str(c) for c in cands], "got": x, "got_type": type(x).__name__}))
    for e in rec["ttab"]:
        t = e["t"]
        cands = [Fraction(int(c[0]), int(c[1])) for c in e["c"]]
        pv, exc, _ = call(real.is_valid_physical_value, t)
        if exc:
            out.append(("exception", {"op": "is_valid_physical_value", "y": t, "exc": exc}))
            continue
        if not pv:
            continue
        x, exc, lib = call(real.convert_physical_to_internal, t)
        if exc:
            out.append(("valid_phys_converts", {"y": t, "exc": exc, "lib": lib}))
        elif cands and not any(num_matches(x, c, it) for c in cands):
            out.append(("p2i", {"y": t, "expected_one_of": [str(c) for c in cands], "got": x}))
    # wrongly typed values are never valid
    for bad in ("7", None, b"\x07"):
        if cat == "TEXTTABLE" and isinstance(bad, str):
            continue
        v, exc, _ = call(real.is_valid_internal_value, bad)
        if exc or v:
            out.append(("valid_internal", {"x": repr(bad), "expected": False, "got": v, "exc": exc, "xtype": type(bad).__name__}))
    for bad in ((7, None, b"\x07") if cat == "TEXTTABLE" else ("7", None, b"\x07")):
        v, exc, _ = call(real.is_valid_physical_value, bad)
        if exc or v:
            out.append(("valid_physical", {"y": repr(bad), "expected": False, "got": v, "exc": exc, "ytype": type(bad).__name__}))
    return out


def shape(cm: Dict[str, Any]) -> Dict[str, Any]:
    """Canonical fields of a configuration used to match known findings."""
    return {"cat": cm["cat"], "it": cm["it"], "pt": cm["pt"], "nscales": len(cm["scales"]),
            "has_inverse": bool(cm["inv"]), "no_denominator": any(len(s["num"]) > 0 and len(s["den"]) == 0 for s in cm["scales"])}
