"""Shared pieces of every check: repository import, verdict bookkeeping, known findings, evidence."""
from __future__ import annotations

import hashlib
import json
import os
import sys
import time
from pathlib import Path
from typing import Any, Callable, Dict, List, Optional

VERIF = Path(__file__).resolve().parent.parent
REPO = Path(os.environ.get("VERIF_REPO", "/repo"))
GUARD = "ODXTOOLS_VERIF"
# evidence/ and replays/ live under /verif unless a self-test redirects them (mutant runs must not
# overwrite the evidence of the real tree)
OUT = Path(os.environ.get("VERIF_OUT", str(VERIF)))


def seed() -> int:
    try:
        return int(os.environ.get("VERIF_SEED", "0"))
    except ValueError:
        return 0


def import_repo(block_c_backend: bool = False) -> None:
    """Make `import odxtools` pick up the working tree under VERIF_REPO with the hooks on."""
    os.environ[GUARD] = "1"
    os.environ.setdefault("PYTHONHASHSEED", "0")
    sys.dont_write_bytecode = True
    p = str(REPO)
    if p in sys.path:
        sys.path.remove(p)
    sys.path.insert(0, p)
    if block_c_backend:
        sys.modules["bitstruct.c"] = None  # type: ignore[assignment]
    import odxtools  # noqa: F401
    got = Path(odxtools.__file__).resolve().parent.parent
    if got != REPO.resolve():
        raise RuntimeError(f"odxtools imported from {got}, expected {REPO}")


def jsonable(x: Any) -> Any:
    if isinstance(x, (bytes, bytearray)):
        return x.hex()
    if isinstance(x, dict):
        return {str(k): jsonable(v) for k, v in x.items()}
    if isinstance(x, (list, tuple)):
        return [jsonable(v) for v in x]
    if isinstance(x, (set, frozenset)):
        return sorted((jsonable(v) for v in x), key=lambda v: json.dumps(v, sort_keys=True))
    if isinstance(x, (str, int, float, bool)) or x is None:
        return x
    return repr(x)


class Findings:
    """known_findings.json: read-only at run time."""

    def __init__(self) -> None:
        p = VERIF / "known_findings.json"
        self.entries: List[Dict[str, Any]] = []
        if p.exists():
            self.entries = json.loads(p.read_text()).get("findings", [])

    def match(self, prop: str, case: Dict[str, Any]) -> Optional[Dict[str, Any]]:
        for e in self.entries:
            if e["property"] != prop:
                continue
            if all(_match_field(case.get(k), v) for k, v in e["match"].items()):
                return e
        return None


def _match_field(actual: Any, want: Any) -> bool:
    if isinstance(want, dict) and set(want) <= {"min", "max", "in", "contains"}:
        if "in" in want:
            return actual in want["in"]
        if "contains" in want:
            return isinstance(actual, (list, str)) and want["contains"] in actual
        try:
            if "min" in want and not (actual >= want["min"]):
                return False
            if "max" in want and not (actual <= want["max"]):
                return False
        except TypeError:
            return False
        return True
    return actual == want


class Verdicts:
    """Collects failing cases of ONE property during a run; decides the exit code."""

    def __init__(self, prop: str, tier: str) -> None:
        self.prop = prop
        self.tier = tier
        self.t0 = time.time()
        self.findings = Findings()
        self.violations: List[Dict[str, Any]] = []
        self.known: Dict[str, int] = {}
        self.divergences: List[Dict[str, Any]] = []
        self.notes: List[str] = []

    def fail(self, clause: str, case: Dict[str, Any]) -> bool:
        """Register a failing case. `case` holds canonical fields + everything needed to replay.
        Returns True if it was a known finding."""
        c = dict(case)
        c["clause"] = clause
        c["property"] = self.prop
        e = self.findings.match(self.prop, c)
        if e is not None:
            self.known[e["id"]] = self.known.get(e["id"], 0) + 1
            return True
        self.violations.append(c)
        return False

    def vacuous(self, msg: str) -> None:
        """a witness counter the check needs is zero: a failure of the machinery - unless violations were found (a library
        that crashes early keeps the replay from reaching the witnesses: that run is a FAIL, not a machinery failure)"""
        if not self.violations:
            from .tlc import MachineryError
            raise MachineryError(msg)
        self.notes.append("witness counters incomplete because of the violations: " + msg[:300])

    def diverge(self, what: str, case: Dict[str, Any]) -> None:
        if len(self.divergences) < 50:
            self.divergences.append({"what": what, **case})

    def finish(self, coverage: Dict[str, Any], assumptions: List[str], level: str = "model_checking") -> int:
        for fid, n in sorted(self.known.items()):
            e = next(x for x in self.findings.entries if x["id"] == fid)
            print(f"KNOWN-FINDING: property={self.prop} {e['what']} [{fid}; {n} case(s)]")
        for d in self.divergences[:3]:
            print(f"DIVERGENCE property={self.prop} what={d.get('what')} {json.dumps(jsonable(d), sort_keys=True)[:160]}")
        if self.divergences and os.environ.get("VERIF_DEBUG"):
            dp = OUT / ".work" / f"divergences-{self.prop}.json"
            dp.parent.mkdir(parents=True, exist_ok=True)
            dp.write_text(json.dumps(jsonable(self.divergences), indent=1, sort_keys=True))
        if self.violations and os.environ.get("VERIF_DEBUG"):
            vp = OUT / ".work" / f"violations-{self.prop}.json"
            vp.parent.mkdir(parents=True, exist_ok=True)
            vp.write_text(json.dumps(jsonable(self.violations[:5000]), sort_keys=True))
        # replay files of earlier runs of this property are stale
        for oldp in ([] if os.environ.get("VERIF_REPLAYING") else (OUT / "replays").glob(f"{self.prop}-*.json")):
            try:
                oldp.unlink()
            except OSError:
                pass
        paths = []
        seen = set()
        for v in self.violations:
            key = hashlib.sha1(json.dumps(jsonable(v), sort_keys=True).encode()).hexdigest()[:12]
            if key in seen:
                continue
            seen.add(key)
            if len(paths) >= 20:
                continue
            rp = OUT / "replays" / f"{self.prop}-{key}.json"
            rp.parent.mkdir(parents=True, exist_ok=True)
            rp.write_text(json.dumps(jsonable(v), indent=1, sort_keys=True))
            paths.append(rp)
            print(f"VIOLATION property={self.prop} replay={rp}")
            print(f"  clause={v.get('clause')} {json.dumps(jsonable(v), sort_keys=True)[:600]}")
        cov = dict(coverage)
        cov.setdefault("samples", [])
        cov["known_findings_observed"] = dict(self.known)
        cov["divergences"] = len(self.divergences)
        ev = {
            "property_id": self.prop,
            "tier": self.tier,
            "seed": seed(),
            "level": level,
            "coverage": jsonable(cov),
            "assumptions": assumptions,
            "wall_s": round(time.time() - self.t0, 2),
            "violations": len(seen),
        }
        out = OUT / "evidence" / f"{self.prop}.json"
        out.parent.mkdir(parents=True, exist_ok=True)
        out.write_text(json.dumps(ev, indent=1, sort_keys=True) + "\n")
        status = "FAIL" if seen else "PASS"
        print(f"{status} property={self.prop} tier={self.tier} violations={len(seen)} "
              f"known={sum(self.known.values())} wall={ev['wall_s']}s evidence={out}")
        return 1 if seen else 0


def chunks(xs: List[Any], n: int) -> List[List[Any]]:
    return [xs[i:i + n] for i in range(0, len(xs), n)]
