"""Replay of the codec model's cases into the real library; clause evaluation for C01, C02, C03, C05, C08."""
from __future__ import annotations

import json
import multiprocessing as mp
import os
import random
import sys
from typing import Any, Dict, List, Optional, Tuple

from . import codec, tlc

UNSETTABLE = ("RESERVED", "NRC-CONST", "MATCHING-REQUEST-PARAM")


def _init(repo: str, block_c: bool) -> None:
    import warnings
    os.environ["VERIF_REPO"] = repo
    from . import common
    common.REPO = common.Path(repo)
    common.import_repo(block_c_backend=block_c)
    warnings.simplefilter("ignore")


def completed(ps: List[Dict[str, Any]], vals: Dict[str, Any]) -> Dict[str, Any]:
    """What decoding must give back: supplied values, defaults, constants (None = nothing prescribed)."""
    out: Dict[str, Any] = {}
    for p in ps:
        k, n = p["k"], p["n"]
        if k in ("VALUE", "SYSTEM"):
            v = vals.get(n)
            if v is None and p["dv"]["t"] != "missing":
                v = codec.dop_py(p["dop"], p["dv"])
            out[n] = _completed_dop(p["dop"], v)
            if p["dop"].get("k") == "envdesc" and isinstance(v, dict):
                # only the entries of the applicable lists (common + those of the referenced trouble code) are encoded
                refp = next((q for q in ps if q["n"] == p["dop"]["ref"]), None)
                code = vals.get(refp["n"]) if refp else None
                if code is None and refp is not None:
                    src = refp["dv"] if refp["k"] in ("VALUE", "SYSTEM") else refp["cv"]
                    code = None if src["t"] == "missing" else src["v"]
                names = {q["n"] for q in p["dop"]["all"]} if p["dop"]["hasall"] else set()
                hit = [per for per in p["dop"]["per"] if code in per["codes"]]
                if hit:
                    names |= {q["n"] for q in hit[0]["ps"]}
                out[n] = {kk: vv for kk, vv in v.items() if kk in names}
        elif k == "CODED-CONST":
            # (a constant that was supplied must come back as supplied: a different value cannot be accepted)
            out[n] = vals[n] if vals.get(n) is not None else codec.atom_py(p["cv"], p["dct"])
        elif k == "PHYS-CONST":
            out[n] = vals[n] if vals.get(n) is not None else codec.dop_py(p["dop"], p["cv"])
        elif k == "TABLE-STRUCT":
            out[n] = _completed_dop(p["dop"], vals.get(n))
        elif k == "TABLE-KEY":
            # the row named explicitly, or by the TABLE-STRUCT that uses the key
            user = next((vals[q["n"]] for q in ps if q["k"] == "TABLE-STRUCT" and q["sys"] == n and vals.get(q["n"]) is not None), None)
            out[n] = vals.get(n) if vals.get(n) is not None else (user[0] if isinstance(user, (tuple, list)) else None)
            if p["cv"]["t"] == "str":
                out[n] = p["cv"]["s"]       # selected statically
        else:
            out[n] = None
    return out


def _completed_dop(d: Dict[str, Any], v: Any) -> Any:
    if v is None:
        return None
    if d["k"] == "envdesc":
        return v if isinstance(v, dict) else None      # the supplied entries must come back (which others do depends on the code)
    if d["k"] == "table":
        row = next((r for r in d["rows"] if r["n"] == v[0]), None)
        return (v[0], _completed_dop(row["st"], v[1]) if row is not None and row["st"]["k"] != "none" else None)
    if d["k"] == "struct":
        return completed(d["ps"], v)
    if d["k"] in ("simple", "dtc"):
        return v
    if d["k"] == "mux":
        cs = list(d["cases"]) + ([d["dflt"]] if d["hasdflt"] else [])
        c = next((x for x in cs if x["n"] == v[0]), None)
        return (v[0], _completed_dop(c["st"], v[1]) if c is not None and c["st"]["k"] != "none" else {})
    return [_completed_dop(d["st"], x) for x in v]


def strip_unsettable(ps: List[Dict[str, Any]], vals: Any) -> Any:
    if not isinstance(vals, dict):
        return vals
    out = {}
    for p in ps:
        if p["n"] not in vals or p["k"] in UNSETTABLE:
            continue
        v = vals[p["n"]]
        d = p["dop"]
        if d.get("k") == "struct":
            v = strip_unsettable(d["ps"], v)
        elif d.get("k") in ("sfield", "dlfield", "eopfield", "demfield") and isinstance(v, list):
            v = [strip_unsettable(d["st"]["ps"], x) for x in v]
        elif d.get("k") == "mux" and isinstance(v, (tuple, list)):
            v = tuple(v)
        out[p["n"]] = v
    return out


def outside_mask(ps: List[Dict[str, Any]], vals: Any) -> bool:
    """some supplied value of a parameter with a BIT-MASK has bits set that the mask does not cover"""
    if not isinstance(vals, dict) or vals.get("t") != "dict":
        return False
    byname = {p["n"]: p for p in ps}
    for (name, val) in vals["v"]:
        p = byname.get(name)
        dct = (p or {}).get("dop", {}).get("dct") if p else None
        if not dct or dct.get("mask") is None:
            continue
        m = dct["mask"]
        if val["t"] == "int" and val["v"] >= 0 and val["v"] & ~m:
            return True
        if val["t"] == "bytes" and int.from_bytes(bytes(val["v"]), "big") & ~m:
            return True
    return False


def has_kind(ps: List[Dict[str, Any]], kinds: Tuple[str, ...]) -> bool:
    for p in ps:
        if p["k"] in kinds or p["dop"].get("k") in kinds:
            return True
        d = p["dop"]
        while d.get("k") not in (None, "none", "simple", "dtc"):
            if d["k"] == "struct":
                if has_kind(d["ps"], kinds):
                    return True
                break
            if d["k"] in kinds:
                return True
            if d["k"] in ("mux", "table", "envdesc"):
                break
            d = d["st"]
    return False


MUT = (0x00, 0x01, 0x7F, 0x80, 0xFE, 0xFF)
SWEEP = (0, 1, 2, 3, 4, 5, 6, 7, 8, 0x7F, 0x80, 0xFE, 0xFF)


def process_chunk(args: Tuple[List[Dict[str, Any]], int, int]) -> Dict[str, Any]:
    recs, seed, chunk_no = args
    rng = random.Random(seed * 1000003 + chunk_no)
    reqs, resps = codec.build(recs)
    fails: List[Tuple[str, str, Dict[str, Any]]] = []
    div: List[Tuple[str, Dict[str, Any]]] = []
    st = {"second_requests": 0, "mux_by_key": 0, "cases": 0, "encodes": 0, "decodes": 0, "real_ok": 0, "spec_ok": 0, "overlaps": 0, "prefix_decodes": 0,
          "mutation_decodes": 0, "reencodes": 0, "truncated_flags": 0, "static_lengths": 0}

    def fail(prop: str, clause: str, rec: Dict[str, Any], entry: str, detail: Dict[str, Any]) -> None:
        if len(fails) < 400:
            fails.append((prop, clause, {"machine": "Codec", "entry": entry, **codec.shape(rec["ps"]), "detail": detail,
                                         "outside_mask": outside_mask(rec["ps"], detail.get("vals")),
                                         "ps": rec["ps"], "rq": rec["rq"]}))

    for rec, rq_obj, pr_obj in zip(recs, reqs, resps):
        ps = rec["ps"]
        if isinstance(rq_obj, codec.LoadFailure):
            # a description of the envelope that the library cannot even load
            for prop_ in ("C01", "C02", "C03", "C05", "C08"):
                fail(prop_, "description_does_not_load", rec, "load", {"exc": rq_obj.exc})
            continue
        rqm = bytes(rec["rq"])
        entries = [("response", pr_obj, rqm)]
        if not has_kind(ps, ("MATCHING-REQUEST-PARAM",)):
            entries.append(("request", rq_obj, None))
        dem = has_kind(ps, ("demfield",))
        # (where the decoder's cursor ends up says nothing if objects are positioned explicitly or a switch key lies behind
        # the content it selects; the reference's "highest byte reached" is checked on the design instead)
        explicit = any(p["bp"] >= 0 for p in ps[1:]) or has_kind(ps, ("LENGTH-KEY",)) or \
            any(p["dop"].get("k") == "mux" and p["dop"]["kbp"] > p["dop"]["bp"] for p in ps)
        for (entry, obj, rq) in entries:
            results: Dict[str, Dict[str, Any]] = {}
            second_request_done = False
            swept = False
            static = obj.get_static_bit_length()
            prefix = bytes(obj.coded_const_prefix(request_prefix=rq or b""))
            prefix0 = bytes(obj.coded_const_prefix())     # without knowing the request
            req_names = {p.short_name for p in obj.required_parameters}
            free_names = {p.short_name for p in obj.free_parameters}
            if static is not None:
                st["static_lengths"] += 1
            if static != (None if rec["static"]["bits"] < 0 else rec["static"]["bits"]):
                div.append(("static_length_vs_spec", {"ps": ps, "real": static, "spec": rec["static"]["bits"]}))
            for c in rec["cases"]:
                st["cases"] += 1
                vals = codec.dict_py(ps, c["vals"])
                key = json.dumps(c["vals"], sort_keys=True)
                enc = codec.real_encode(obj, vals, rq)
                st["encodes"] += 1
                results[key] = {"ok": enc["pdu"] is not None, "supplied": set(vals), "vals": c["vals"], "pdu": enc["pdu"],
                                "overlap": enc["overlap"]}
                spec_ok = not c["err"]
                st["spec_ok"] += spec_ok
                base = {"vals": c["vals"], "spec_pdu": c["pdu"], "spec_err": c["err"],
                        "real_pdu": enc["pdu"].hex() if enc["pdu"] is not None else None, "real_exc": enc["exc"]}
                if enc["pdu"] is not None:
                    st["real_ok"] += 1
                    pdu = enc["pdu"]
                    # ---- C08 (real against real)
                    if static is not None and 8 * len(pdu) != static:
                        fail("C08", "static_length", rec, entry, {**base, "static_bits": static})
                    if not enc["overlap"] and not pdu.startswith(prefix):
                        fail("C08", "const_prefix", rec, entry, {**base, "prefix": prefix.hex()})
                    if not enc["overlap"] and not pdu.startswith(prefix0):
                        fail("C08", "const_prefix_without_request", rec, entry, {**base, "prefix": prefix0.hex()})
                    if rq and not enc["overlap"] and not second_request_done:
                        # the same response object answering another request: the prefix reported for that request
                        second_request_done = True
                        rq2 = bytes((b + 1) % 256 for b in rq)
                        prefix2 = bytes(obj.coded_const_prefix(request_prefix=rq2))
                        enc2 = codec.real_encode(obj, vals, rq2)
                        st["second_requests"] += 1
                        if enc2["pdu"] is not None and not enc2["overlap"] and not enc2["pdu"].startswith(prefix2):
                            fail("C08", "const_prefix", rec, entry, {**base, "prefix": prefix2.hex(), "second_request": rq2.hex(),
                                                                     "real_pdu": enc2["pdu"].hex()})
                    # ---- C01: decode(encode(v)) = v, whole PDU consumed (objects that really overlap cannot come back: exempt
                    # when the reference agrees that they overlap, not merely because the encoder warned)
                    if not (enc["overlap"] and (c["ovl"] or c["err"])):
                        dec = codec.real_decode(obj, pdu)
                        st["decodes"] += 1
                        if dec["exc"]:
                            fail("C01", "decode_of_own_encoding_raises", rec, entry, {**base, "exc": dec["exc"], "msg": dec.get("msg")})
                        else:
                            if not codec.agrees(completed(ps, vals), dec["vals"]):
                                fail("C01", "round_trip", rec, entry, {**base, "decoded": repr(dec["vals"])[:300]})
                            if not dem and not explicit and dec["cursor"] != len(pdu):
                                fail("C01", "whole_pdu_consumed", rec, entry, {**base, "cursor": dec["cursor"]})
                    # ---- a multiplexer case may be named by a key value of its range instead of its short name: the lower limit
                    # gives the same PDU, the upper limit one that decodes to the same case and content
                    for p_ in ps:
                        pv = vals.get(p_["n"])
                        if p_["k"] != "VALUE" or p_["dop"].get("k") != "mux" or not isinstance(pv, tuple) or enc["overlap"]:
                            continue
                        for cs in [c_ for c_ in p_["dop"]["cases"] if c_["n"] == pv[0]]:
                            st["mux_by_key"] += 1
                            e_lo = codec.real_encode(obj, {**vals, p_["n"]: (cs["lo"], pv[1])}, rq)
                            if e_lo["pdu"] != pdu:
                                fail("C02", "mux_case_by_key", rec, entry, {**base, "key": cs["lo"], "by_key_exc": e_lo["exc"],
                                                                            "by_key_pdu": e_lo["pdu"].hex() if e_lo["pdu"] is not None else None})
                            if cs["hi"] != cs["lo"]:
                                e_hi = codec.real_encode(obj, {**vals, p_["n"]: (cs["hi"], pv[1])}, rq)
                                d_hi = codec.real_decode(obj, e_hi["pdu"]) if e_hi["pdu"] is not None else {"exc": e_hi["exc"], "vals": None}
                                if d_hi["exc"] or not codec.agrees(completed(ps, vals), d_hi["vals"]):
                                    fail("C01", "round_trip", rec, entry, {**base, "key": cs["hi"], "by_key_exc": d_hi["exc"],
                                                                          "decoded": repr(d_hi["vals"])[:300]})
                    if spec_ok:
                        # ---- C02: bit-exact, overlap warning iff double claim
                        if pdu != bytes(c["pdu"]):
                            fail("C02", "pdu_bytes", rec, entry, base)
                        elif enc["overlap"] != bool(c["ovl"]):
                            fail("C02", "overlap_warning", rec, entry, {**base, "real_overlap": enc["overlap"], "spec_overlap": c["ovl"]})
                        st["overlaps"] += bool(c["ovl"])
                    else:
                        div.append(("spec_rejects_code_accepts", {"ps": ps, **base}))
                else:
                    if spec_ok:
                        div.append(("spec_accepts_code_rejects", {"ps": ps, **base}))
                if spec_ok and not c["ovl"]:
                    spdu = bytes(c["pdu"])
                    # ---- C02: decoding reads the same bits (reference-built PDU)
                    dec = codec.real_decode(obj, spdu)
                    st["decodes"] += 1
                    want = codec.dict_py(ps, c["dvals"]) if not c["derr"] else None
                    if not c["derr"]:
                        if dec["exc"]:
                            fail("C02", "decode_reference_pdu_raises", rec, entry, {**base, "exc": dec["exc"], "msg": dec.get("msg")})
                        elif not codec.agrees(want, dec["vals"]):
                            fail("C02", "decode_reference_pdu", rec, entry, {**base, "decoded": repr(dec["vals"])[:300], "expected": repr(want)[:300]})
                        if not dec["exc"] and not dem:
                            # ---- C03: decode then re-encode reproduces the PDU
                            re_vals = strip_unsettable(ps, dec["vals"])
                            ren = codec.real_encode(obj, re_vals, rq)
                            st["reencodes"] += 1
                            if ren["pdu"] is None:
                                fail("C03", "reencode_raises", rec, entry, {**base, "exc": ren["exc"], "msg": ren.get("msg"), "decoded": repr(dec["vals"])[:300]})
                            elif ren["pdu"] != spdu:
                                fail("C03", "reencode_differs", rec, entry, {**base, "reencoded": ren["pdu"].hex()})
                    # ---- C05: every proper prefix, single-byte mutations
                    for k, flag in enumerate(c["trunc"]):
                        d2 = codec.real_decode(obj, spdu[:k])
                        st["prefix_decodes"] += 1
                        st["truncated_flags"] += bool(flag)
                        if d2["exc"] and not d2["decode_error"]:
                            fail("C05", "foreign_exception", rec, entry, {**base, "input": spdu[:k].hex(), "exc": d2["exc"], "msg": d2.get("msg")})
                        elif flag and not d2["exc"]:
                            fail("C05", "truncated_accepted", rec, entry, {**base, "input": spdu[:k].hex(), "decoded": repr(d2["vals"])[:200]})
                    if spdu and not swept and len(spdu) <= 16:
                        # once per description: every byte position x small counts and the extremes (a length or count that
                        # claims more than its item holds while the bytes are there)
                        swept = True
                        for pos in range(len(spdu)):
                            for b in SWEEP:
                                if spdu[pos] == b:
                                    continue
                                m = bytearray(spdu)
                                m[pos] = b
                                d3 = codec.real_decode(obj, bytes(m))
                                st["mutation_decodes"] += 1
                                if d3["exc"] and not d3["decode_error"]:
                                    fail("C05", "foreign_exception", rec, entry, {**base, "input": bytes(m).hex(), "exc": d3["exc"],
                                                                                 "msg": d3.get("msg")})
                    if spdu:
                        for _ in range(3):
                            m = bytearray(spdu)
                            m[rng.randrange(len(m))] = rng.choice(MUT)
                            if rng.random() < 0.3:
                                m += bytes([rng.choice(MUT)])
                            d3 = codec.real_decode(obj, bytes(m))
                            st["mutation_decodes"] += 1
                            if d3["exc"] and not d3["decode_error"]:
                                fail("C05", "foreign_exception", rec, entry, {**base, "input": bytes(m).hex(), "exc": d3["exc"], "msg": d3.get("msg")})
            # ---- C08: required / free against what encoding actually does
            supplied_ok = {n for r in results.values() if r["ok"] for n in r["supplied"]}
            for n in supplied_ok - free_names:
                fail("C08", "free_missing", rec, entry, {"param": n, "free": sorted(free_names)})
            all_supplied = {n for r in results.values() for n in r["supplied"]}
            for n in (free_names & all_supplied) - supplied_ok:
                if any(r["ok"] for r in results.values()):
                    fail("C08", "free_but_never_accepted", rec, entry, {"param": n})
            for key, r in results.items():
                if not r["ok"]:
                    continue
                for n in r["supplied"]:
                    less = {"t": "dict", "v": [x for x in r["vals"]["v"] if x[0] != n]}
                    r2 = results.get(json.dumps(less, sort_keys=True))
                    if r2 is None:
                        continue
                    if n in req_names and r2["ok"]:
                        fail("C08", "required_but_omission_accepted", rec, entry, {"param": n, "vals": less})
                    if n not in req_names and not r2["ok"]:
                        fail("C08", "not_required_but_omission_fails", rec, entry, {"param": n, "vals": less})
            # a free parameter is one whose value the caller can set: two accepted assignments that differ in nothing but
            # the value of one top-level parameter must not produce the same PDU
            by_rest: Dict[str, List[Dict[str, Any]]] = {}
            for r in results.values():
                if not r["ok"] or r["overlap"]:
                    continue
                for (n_, val) in r["vals"]["v"]:
                    # (a value with bits outside its BIT-MASK is not carried: known finding of C01 / C04, not a statement about "free")
                    if n_ in free_names and val["t"] in ("int", "bytes", "text") and \
                            not outside_mask(ps, {"t": "dict", "v": [[n_, val]]}):
                        rest = json.dumps([x for x in r["vals"]["v"] if x[0] != n_], sort_keys=True)
                        by_rest.setdefault(n_ + "|" + rest, []).append({"val": val, "pdu": r["pdu"]})
            for key, lst in by_rest.items():
                seen_pdu: Dict[bytes, Any] = {}
                for e in lst:
                    other = seen_pdu.setdefault(e["pdu"], e["val"])
                    if other != e["val"]:
                        fail("C08", "free_value_not_carried", rec, entry, {"param": key.split("|")[0], "values": [other, e["val"]],
                                                                           "pdu": e["pdu"].hex()})
                        break
            if req_names != set(rec["static"]["required"]) or free_names != set(rec["static"]["free"]):
                div.append(("required_free_vs_spec", {"ps": ps, "real": [sorted(req_names), sorted(free_names)],
                                                      "spec": [rec["static"]["required"], rec["static"]["free"]]}))
    return {"fails": fails, "div": div[:30], "ndiv": len(div), "stats": st}


def process_chunk_c04(args: Tuple[List[Dict[str, Any]], int, int]) -> Dict[str, Any]:
    """C04: every outcome is a library error or a PDU that decodes back to what was requested."""
    recs, _seed, _chunk_no = args
    reqs, resps = codec.build(recs)
    fails: List[Tuple[str, str, Dict[str, Any]]] = []
    st = {"cases": 0, "accepted": 0, "rejected_lib": 0, "rejected_encode_error": 0, "spec_reject": 0, "wrong_type_cases": 0,
          "spec_reject_real_accept": 0}
    for rec, rq_obj, pr_obj in zip(recs, reqs, resps):
        ps = rec["ps"]
        if isinstance(rq_obj, codec.LoadFailure):
            # a description of the envelope that the library cannot even load
            fails.append(("C04", "description_does_not_load", {"machine": "Codec", "entry": "load", **codec.shape(ps),
                                                               "detail": {"exc": rq_obj.exc}, "outside_mask": False,
                                                               "ps": ps, "rq": rec["rq"]}))
            continue
        rqm = bytes(rec["rq"])
        entries = [("response", pr_obj, rqm)]
        if not has_kind(ps, ("MATCHING-REQUEST-PARAM",)):
            entries.append(("request", rq_obj, None))
        for (entry, obj, rq) in entries:
            for c in rec["cases"]:
                st["cases"] += 1
                st["spec_reject"] += bool(c["err"])
                vals = codec.dict_py(ps, c["vals"])
                st["wrong_type_cases"] += '"bad"' in json.dumps(c["vals"])
                enc = codec.real_encode(obj, vals, rq)
                base = {"vals": c["vals"], "spec_err": c["err"], "real_pdu": enc["pdu"].hex() if enc["pdu"] is not None else None,
                        "real_exc": enc["exc"], "msg": enc.get("msg")}

                def fail(clause: str, extra: Dict[str, Any]) -> None:
                    if len(fails) < 400:
                        fails.append(("C04", clause, {"machine": "Codec", "entry": entry, **codec.shape(ps), "detail": {**base, **extra},
                                                      "outside_mask": outside_mask(ps, c["vals"]),
                                                      "ps": ps, "rq": rec["rq"]}))
                if enc["pdu"] is None:
                    if not enc["lib"]:
                        fail("foreign_exception", {})
                    else:
                        st["rejected_lib"] += 1
                        st["rejected_encode_error"] += enc["exc"] == "EncodeError"
                    continue
                st["accepted"] += 1
                st["spec_reject_real_accept"] += bool(c["err"])
                if enc["overlap"]:
                    continue
                dec = codec.real_decode(obj, enc["pdu"])
                if dec["exc"]:
                    fail("accepted_but_not_decodable", {"exc": dec["exc"]})
                elif not codec.agrees(completed(ps, {k: v for k, v in vals.items() if any(p["n"] == k for p in ps)}), dec["vals"]) \
                        or any(k not in {p["n"] for p in ps} for k in vals):
                    fail("silently_misrepresented", {"decoded": repr(dec["vals"])[:300], "requested": repr(vals)[:300]})
    return {"fails": fails, "div": [], "ndiv": 0, "stats": st}


def check_c04(tier: str, replay_path: Optional[str]) -> int:
    from .common import REPO, Verdicts, import_repo, seed
    import_repo()
    v = Verdicts("C04", tier)
    if replay_path and json.loads(open(replay_path).read()).get("entry") == "table entry":
        _table_entry_probe(v, "C04")
        return v.finish({"states": 1, "transitions": 1, "traces_validated_against_impl": 1, "samples": []}, ["replay of the table entry probe"])
    if replay_path and json.loads(open(replay_path).read()).get("machine") == "Compu":
        _c04_compu(v, tier, json.loads(open(replay_path).read())["record"]["cm"])
        return v.finish({"states": 1, "transitions": 1, "traces_validated_against_impl": 1, "samples": []}, ["replay of one configuration"])
    if replay_path:
        case = json.loads(open(replay_path).read())
        wd = tlc.workdir("codecreplay")
        try:
            rec = _recompute(case, wd, wrong=True)
        finally:
            tlc.rmtree(wd)
        out = process_chunk_c04(([rec], seed(), 0))
        for (_p, clause, c) in out["fails"]:
            v.fail(clause, c)
        return v.finish({"states": 1, "transitions": 1, "traces_validated_against_impl": 1, "samples": [case.get("detail")]},
                        ["replay of one description"])
    res, recs = codec.run_model(tier, "c04_")
    print(f"[C04] TLC: {res.distinct} states, {len(recs)} descriptions, {res.wall_s:.1f}s", flush=True)
    stats: Dict[str, Any] = {}
    for (name, block) in ([("c", False)] + ([("pure-python", True)] if tier == "thorough" else [])):
        n = max(1, min(16, len(recs) // 10 or 1))
        size = (len(recs) + n - 1) // n
        chunks = [(recs[i:i + size], seed(), i) for i in range(0, len(recs), size)]
        with mp.get_context("spawn").Pool(len(chunks), initializer=_init, initargs=(str(REPO), block)) as pool:
            outs = pool.map(process_chunk_c04, chunks)
        st: Dict[str, int] = {}
        for o in outs:
            for (_p, clause, c) in o["fails"]:
                c["backend"] = name
                v.fail(clause, c)
            for k, x in o["stats"].items():
                st[k] = st.get(k, 0) + x
        stats[name] = st
    print(f"[C04] replay: {stats}", flush=True)
    compu_stats = _c04_compu(v, tier)
    compu_stats.update(_table_entry_probe(v, "C04"))
    s0 = stats["c"]
    if s0["accepted"] == 0 or s0["rejected_lib"] == 0 or s0["wrong_type_cases"] == 0:
        v.vacuous(f"vacuity: {s0}")
    ncases = sum(len(r["cases"]) for r in recs)
    cov = {"states": res.distinct, "transitions": res.generated, "traces_validated_against_impl": s0["cases"],
           "evaluations": s0["cases"], "distinct_nontrivial": ncases,
           "rule": "the description families of the codec model with value alphabets widened to the wrong: every integer in "
                   "[-2^n-1, 2^n+1] for n <= 8, the range boundaries up to 64 bits, byte fields and strings one unit shorter "
                   "and longer, wrongly typed objects, omitted required and unknown parameters; each case executed on the real "
                   "encoder: outcome must be an OdxError or a PDU that decodes to the request",
           "exhaustive": True, "descriptions": len(recs), "cases": ncases, "replay": stats, "compu": compu_stats,
           "samples": [{"ps": [[p["k"], p["n"]] for p in recs[0]["ps"]], "case": recs[0]["cases"][0]["vals"]}]}
    return v.finish(cov, ["TLC and the CommunityModules", "the reference's own accept/reject verdict is NOT the oracle (a stricter "
                          "encoder is fine); OdxError (not only EncodeError) counts as the library's own error type",
                          "the ODX emitter and the library's loader"])


def replay(recs: List[Dict[str, Any]], seed: int, block_c: bool, workers: int = 16) -> Dict[str, Any]:
    from .common import REPO
    n = max(1, min(workers, len(recs) // 20 or 1))
    size = (len(recs) + n - 1) // n
    chunks = [(recs[i:i + size], seed, i) for i in range(0, len(recs), size)]
    ctx = mp.get_context("spawn")
    with ctx.Pool(len(chunks), initializer=_init, initargs=(str(REPO), block_c)) as pool:
        outs = pool.map(process_chunk, chunks)
    total: Dict[str, Any] = {"fails": [], "div": [], "ndiv": 0, "stats": {}}
    for o in outs:
        total["fails"] += o["fails"]
        total["div"] += o["div"]
        total["ndiv"] += o["ndiv"]
        for k, v in o["stats"].items():
            total["stats"][k] = total["stats"].get(k, 0) + v
    return total


def check(prop: str, tier: str, replay_path: Optional[str]) -> int:
    from .common import Verdicts, import_repo, seed
    import_repo()
    v = Verdicts(prop, tier)
    if replay_path and json.loads(open(replay_path).read()).get("entry") == "table entry":
        _table_entry_probe(v, prop)
        return v.finish({"states": 1, "transitions": 1, "traces_validated_against_impl": 1, "samples": []}, ["replay of the table entry probe"])
    if replay_path and json.loads(open(replay_path).read()).get("entry") == "system parameters":
        _system_parameters(v, prop)
        return v.finish({"states": 1, "transitions": 1, "traces_validated_against_impl": 1, "samples": []}, ["replay of the system parameters"])
    if replay_path and json.loads(open(replay_path).read()).get("machine") == "Compu":
        _c03_compu(v, tier, json.loads(open(replay_path).read())["record"]["cm"])
        return v.finish({"states": 1, "transitions": 1, "traces_validated_against_impl": 1, "samples": []}, ["replay of one configuration"])
    if replay_path:
        case = json.loads(open(replay_path).read())
        wd = tlc.workdir("codecreplay")
        try:
            rec = _recompute(case, wd)
        finally:
            tlc.rmtree(wd)
        out = process_chunk(([rec], seed(), 0))
        for (p, clause, c) in out["fails"]:
            if p == prop:
                v.fail(clause, c)
        return v.finish({"states": 1, "transitions": 1, "traces_validated_against_impl": 1, "samples": [case.get("detail")]},
                        ["replay of one description"])
    res, recs = codec.run_model(tier)
    print(f"[{prop}] TLC: {res.distinct} states, {len(recs)} descriptions, {res.wall_s:.1f}s", flush=True)
    runs = [("c", False)]
    if prop == "C02" or tier == "thorough":
        runs.append(("pure-python", True))
    stats: Dict[str, Any] = {}
    ndiv = 0
    divs: List[Any] = []
    for (name, block) in runs:
        out = replay(recs, seed(), block)
        stats[name] = out["stats"]
        ndiv += out["ndiv"]
        divs += out["div"]
        for (p, clause, c) in out["fails"]:
            if p == prop:
                c["backend"] = name
                v.fail(clause, c)
    print(f"[{prop}] replay: {stats}", flush=True)
    extra: Dict[str, Any] = {}
    if prop == "C03":
        extra["compu"] = _c03_compu(v, tier)
    if prop == "C05":
        extra["layers"] = _c05_layers(v, tier, seed())
    if prop in ("C01", "C08"):
        extra["system_parameters"] = _system_parameters(v, prop)
    if prop == "C05":
        extra["table_entry"] = _table_entry_probe(v, prop)
    for (what, d) in divs[:5]:
        v.diverge(what, {"detail": json.loads(json.dumps(d, default=str))})
    ncases = sum(len(r["cases"]) for r in recs)
    s0 = stats["c"]
    if s0["real_ok"] == 0 or s0["overlaps"] == 0 or s0["truncated_flags"] == 0 or s0["static_lengths"] == 0:
        v.vacuous(f"vacuity: {s0}")
    cov = {"states": res.distinct, "transitions": res.generated, "traces_validated_against_impl": s0["cases"],
           "evaluations": s0["encodes"] + s0["decodes"] + s0["prefix_decodes"] + s0["mutation_decodes"] + s0["reencodes"],
           "distinct_nontrivial": ncases,
           "rule": "TLC enumerates message descriptions (families A atomic placement, B length-carrying types, C composites "
                   "of <= 2 (quick) / 3 (thorough) parameter shapes) and for each every assignment (all subsets of supplied "
                   "parameters x value alphabets); each case is executed on the real Request and Response objects built "
                   "from generated ODX XML; distinct = (description, assignment) pairs",
           "exhaustive": True, "descriptions": len(recs), "cases": ncases, "replay": stats, "divergences": ndiv, **extra,
           "samples": [{"ps": [[p["k"], p["n"], p["bp"], p["bi"]] for p in recs[len(recs) // 2]["ps"]],
                        "case": recs[len(recs) // 2]["cases"][0]}]}
    return v.finish(cov, ["TLC and the CommunityModules", "my transcription of the ODX wire format in Bits.tla/CodecCore.tla "
                          "(conventions adopted from the implementation are listed in the module header)",
                          "the ODX emitter and the library's loader", "Python struct for IEEE-754 patterns"])


def _recompute(case: Dict[str, Any], wd: Any, wrong: bool = False) -> Dict[str, Any]:
    """Re-run the reference on the single description of a replay file."""
    ps_json = json.dumps(case["ps"])
    (wd / "desc.json").write_text(json.dumps({"ps": case["ps"], "rq": case["rq"]}))
    (wd / "MCR.tla").write_text(
        "---- MODULE MCR ----\nEXTENDS MC_Codec, IOUtils\n"
        "TheDesc == JsonDeserialize(IOEnv.DESC_FILE)\n"
        "NextR == Pick(TheDesc) \\/ Evaluate\nSpecR == Init /\\ [][NextR]_vars\n====\n")
    (wd / "MCR.cfg").write_text(f"CONSTANT Wrong = {'TRUE' if wrong else 'FALSE'}\nSPECIFICATION SpecR\nINVARIANT Emit\n")
    res = tlc.run("MCR.tla", "MCR.cfg", cwd=wd, workers=1, env={"DESC_FILE": str(wd / "desc.json")})
    recs = list(res.json_lines())
    if len(recs) != 1:
        raise tlc.MachineryError(f"replay: TLC did not evaluate the description: {res.errors[:3]} {res.stdout[-1500:]}")
    del ps_json
    return recs[0]


def _c03_compu(v: Any, tier: str, only_cm: Any = None) -> Dict[str, Any]:
    """C03, second sentence: internal -> physical -> internal is the identity for injective compu methods (Compu.tla)."""
    from . import compu
    res, recs = compu.run_model(tier)
    if only_cm is not None:
        recs = [r for r in recs if r["cm"] == only_cm]
    reals = compu.build([r["cm"] for r in recs])
    n = inj = 0
    for rec, real in zip(recs, reals):
        inj += bool(rec["injective"])
        seen = set()
        for (clause, detail) in compu.compare(rec["cm"], rec, real):
            if clause in ("i2p2i", "image_valid") and clause not in seen:
                seen.add(clause)
                n += 1
                v.fail("compu_" + clause, {"machine": "Compu", **compu.shape(rec["cm"]), "detail": detail, "ps": [], "rq": [],
                                           "record": {"cm": rec["cm"]}})
    print(f"[C03] compu round trip: {len(recs)} configurations, {inj} injective, {n} failures", flush=True)
    return {"configurations": len(recs), "injective": inj, "states": res.distinct}


SYSTEM_KINDS = {
    # predefined SYSPARAM -> (bits, base type, what the clock prescribes)
    "SECOND": (8, "A_UINT32", lambda t: t.second), "MINUTE": (8, "A_UINT32", lambda t: t.minute), "HOUR": (8, "A_UINT32", lambda t: t.hour),
    "DAY": (8, "A_UINT32", lambda t: t.day), "WEEK": (8, "A_UINT32", lambda t: t.isocalendar()[1]), "MONTH": (8, "A_UINT32", lambda t: t.month),
    "YEAR": (16, "A_UINT32", lambda t: t.year), "CENTURY": (8, "A_UINT32", lambda t: t.year // 100),
}


def _system_parameters(v: Any, prop: str) -> Dict[str, int]:
    """SYSTEM parameters of the predefined kinds (values the library derives from the clock): not required, settable, an
    encoding without them succeeds and decodes to what the clock showed between the start and the end of the call; an
    explicit value wins.  (The codec reference has no clock: the accepted set is computed from the two time stamps.)"""
    from datetime import datetime
    from . import odxgen as og
    lay = og.Layer("BASE-VARIANT", "BV", "BV")
    ps = [og.p_const8("sid", 0x22, bytepos=0)]
    for k, (name, (bits, base, _f)) in enumerate(sorted(SYSTEM_KINDS.items())):
        lay.dops.append(og.dop(f"D.{name}", f"d_{name}", og.dct_standard(base, bits)))
        ps.append(og.p_system(name.lower(), name, f"D.{name}"))
    lay.requests.append(og.request("RQ.sys", "RQsys", ps))
    st = {"system_kinds": 0, "system_encodes": 0}
    try:
        rq = og.load([og.container("DLC", "DLC", [lay])]).base_variants[0].diag_layer_raw.requests.RQsys
    except Exception as e:  # noqa: BLE001
        v.fail("description_does_not_load", {"machine": "Codec", "entry": "system parameters", "detail": {"exc": f"{type(e).__name__}: {e}"[:200]},
                                             "ps": [], "rq": [], "outside_mask": False})
        return st
    names = [n.lower() for n in sorted(SYSTEM_KINDS)]
    case = {"machine": "Codec", "entry": "system parameters", "ps": [], "rq": [], "outside_mask": False, "dop_kinds": ["system"]}
    if prop == "C08":
        req = {p.short_name for p in rq.required_parameters}
        free = {p.short_name for p in rq.free_parameters}
        st["system_kinds"] = len(names)
        if req & set(names):
            v.fail("required_but_omission_accepted", {**case, "detail": {"reported_required": sorted(req & set(names))}})
        if set(names) - free:
            v.fail("free_missing", {**case, "detail": {"not_reported_free": sorted(set(names) - free)}})
    for rounds in range(3):
        t0 = datetime.now()
        try:
            pdu = bytes(rq.encode())
            dec = rq.decode(pdu)
        except Exception as e:  # noqa: BLE001
            v.fail("not_required_but_omission_fails" if prop == "C08" else "decode_of_own_encoding_raises",
                   {**case, "detail": {"exc": f"{type(e).__name__}: {e}"[:200]}})
            return st
        t1 = datetime.now()
        st["system_encodes"] += 1
        if prop == "C01":
            for name, (_b, _t, f) in SYSTEM_KINDS.items():
                if dec[name.lower()] not in (f(t0), f(t1)):
                    v.fail("round_trip", {**case, "detail": {"param": name, "decoded": dec[name.lower()], "clock": [f(t0), f(t1)],
                                                             "real_pdu": pdu.hex()}})
            # an explicit value wins and comes back
            dec2 = rq.decode(bytes(rq.encode(year=1999, second=59)))
            if (dec2["year"], dec2["second"]) != (1999, 59):
                v.fail("round_trip", {**case, "detail": {"supplied": {"year": 1999, "second": 59}, "decoded": [dec2["year"], dec2["second"]]}})
    return st


def _table_entry_probe(v: Any, prop: str) -> Dict[str, int]:
    """TABLE-ENTRY parameters are outside the codec reference (the library does not implement them); what must still hold:
    encoding / decoding a description that has one ends in the library's error types (C04 / C05), also on the layer."""
    from odxtools.exceptions import OdxError
    from . import odxgen as og
    lay = og.Layer("BASE-VARIANT", "BV", "BV")
    lay.dops.append(og.dop("D.u8", "u8", og.dct_standard("A_UINT32", 8)))
    lay.tables.append(og.table("T.1", "tab", "D.u8", [("T.r1", "row1", 1, None, "D.u8")]))
    te = og.param("TABLE-ENTRY", "e", body="<TARGET>KEY</TARGET>" + og.ref("TABLE-ROW-REF", "T.r1"))
    lay.requests.append(og.request("RQ.e", "RQe", [og.p_const8("sid", 0x22, bytepos=0), te]))
    lay.requests.append(og.request("RQ.o", "RQo", [og.p_const8("sid", 0x22, bytepos=0), og.p_value("p", "D.u8")]))
    lay.diag_comms.append(og.service("DC.e", "svce", "RQ.e"))
    lay.diag_comms.append(og.service("DC.o", "svco", "RQ.o"))
    st = {"table_entry_calls": 0}
    case = {"machine": "Codec", "entry": "table entry", "ps": [], "rq": [], "outside_mask": False, "dop_kinds": ["table entry"]}
    try:
        bv = og.load([og.container("DLC", "DLC", [lay])]).base_variants[0]
    except Exception as e:  # noqa: BLE001
        v.fail("description_does_not_load", {**case, "detail": {"exc": f"{type(e).__name__}: {e}"[:200]}})
        return st
    r = bv.diag_layer_raw.requests.RQe
    calls = [("encode", lambda: r.encode())] if prop == "C04" else \
        [("decode", lambda: r.decode(b"\x22\x01")), ("decode truncated", lambda: r.decode(b"\x22")),
         ("layer decode", lambda: bv.decode(b"\x22\x01"))]
    for (what, f) in calls:
        st["table_entry_calls"] += 1
        try:
            f()
        except OdxError:
            pass
        except Exception as e:  # noqa: BLE001
            v.fail("foreign_exception", {**case, "exc": type(e).__name__, "detail": {"call": what, "exc": type(e).__name__, "msg": str(e)[:120]}})
    return st


def _c04_compu(v: Any, tier: str, only_cm: Any = None) -> Dict[str, Any]:
    """C04 behind the data objects: a physical value the computation method accepts is converted to one of its pre-images
    (Compu.tla), or refused with the library's error - never to another internal value, never a foreign exception."""
    from . import compu
    res, recs = compu.run_model(tier)
    if only_cm is not None:
        recs = [r for r in recs if r["cm"] == only_cm]
    reals = compu.build([r["cm"] for r in recs])
    n = 0
    for rec, real in zip(recs, reals):
        seen = set()
        for (clause, detail) in compu.compare(rec["cm"], rec, real):
            bad = clause == "p2i" or (clause in ("valid_phys_converts", "moncont_encodes") and not detail.get("lib", True)) or \
                (clause == "exception" and detail.get("op") == "load")
            if bad and clause not in seen:
                seen.add(clause)
                n += 1
                v.fail("compu_" + clause, {"machine": "Compu", **compu.shape(rec["cm"]), "detail": detail, "ps": [], "rq": [],
                                           "outside_mask": False, "record": {"cm": rec["cm"]}})
    print(f"[C04] compu physical -> internal: {len(recs)} configurations, {n} failures", flush=True)
    return {"configurations": len(recs), "states": res.distinct}


def _c05_layers(v: Any, tier: str, seed_: int) -> Dict[str, Any]:
    """C05 on whole layers: generated dispatch layers and the shipped somersault database, arbitrary byte strings."""
    import odxtools
    from odxtools.exceptions import DecodeError

    from .checks import c06
    from .common import REPO
    rng = random.Random(seed_ + 5)
    layers = [("gen:" + "+".join(names) + ("/" + g if g else ""), c06.build_layer(names, [g] if g else []))
              for names in (["Sa", "Sb"], ["Sb", "Sc", "Sd"], ["Se", "Sf"], ["Sb", "Sg"]) for g in ("", "GNR1", "GNR2")]
    db = odxtools.load_pdx_file(str(REPO / "examples" / "somersault.pdx"))
    layers += [("somersault:" + dl.short_name, dl) for dl in db.diag_layers]
    inputs = [b""] + [bytes([b]) for b in (0x00, 0x10, 0x22, 0x7F, 0xFF)]
    n = 400 if tier == "quick" else 4000
    for _ in range(n):
        ln = rng.choice([1, 2, 2, 3, 3, 4, 5, 8, 16, 64])
        first = rng.choice([0x10, 0x22, 0x31, 0x62, 0x7F, 0xBA, 0xFA, 0xBD, 0x3E, rng.randrange(256)])
        inputs.append(bytes([first] + [rng.choice([0, 1, 0x7F, 0x80, 0xFE, 0xFF, rng.randrange(256)]) for _ in range(ln - 1)]))
    count = 0
    for (lname, layer) in layers:
        reqs = [i for i in inputs[:40]]
        for m in inputs:
            for mode in ("decode", "decode_response"):
                count += 1
                try:
                    if mode == "decode":
                        layer.decode(m)
                    else:
                        layer.decode_response(m, rng.choice(reqs))
                except DecodeError:
                    pass
                except Exception as e:  # noqa: BLE001
                    v.fail("layer_foreign_exception", {"machine": "Codec", "layer": lname, "input": m.hex(), "mode": mode,
                                                       "exc": type(e).__name__, "msg": str(e)[:120], "ps": [], "rq": [],
                                                       "empty_input": len(m) == 0})
    return {"layers": len(layers), "layer_decodes": count}
