"""Run TLC and read what it prints: counts, invariant verdicts, PrintT values, dot graphs.

Everything TLC needs as scratch goes to /verif/.work/<pid>-<n> and is removed afterwards.
"""
from __future__ import annotations

import json
import os
import re
import shutil
import subprocess
import time
from dataclasses import dataclass, field
from pathlib import Path
from typing import Any, Dict, Iterator, List, Optional, Tuple

VERIF = Path(__file__).resolve().parent.parent
SPEC = VERIF / "spec"
WORK = VERIF / ".work"
JAR = "/opt/veriftools/tla/tla2tools.jar:/opt/veriftools/tla/CommunityModules-deps.jar"

_counter = 0


class MachineryError(Exception):
    """Something in the verification machinery itself failed (exit code 2)."""


def workdir(tag: str = "w") -> Path:
    global _counter
    _counter += 1
    d = WORK / f"{os.getpid()}-{_counter}-{tag}"
    d.mkdir(parents=True, exist_ok=True)
    return d


def rmtree(p: Path) -> None:
    shutil.rmtree(p, ignore_errors=True)


@dataclass
class TlcResult:
    cmd: List[str]
    stdout: str
    returncode: int
    wall_s: float
    generated: int = 0
    distinct: int = 0
    left: int = 0
    depth: int = 0
    violated: List[str] = field(default_factory=list)  # names of violated invariants/properties
    errors: List[str] = field(default_factory=list)  # other TLC errors
    printed: List[str] = field(default_factory=list)  # raw PrintT lines (not TLC chatter)
    coverage: Dict[str, Tuple[int, int]] = field(default_factory=dict)  # action -> (distinct, total)
    postcondition_failed: bool = False

    @property
    def ok(self) -> bool:
        return not self.violated and not self.errors and not self.postcondition_failed

    def json_lines(self) -> Iterator[Any]:
        """PrintT(ToJson(x)) lines: a TLA+ string literal holding JSON."""
        for ln in self.printed:
            if ln.startswith('"') and ln.endswith('"') and len(ln) > 2 and ln[1] in "{[":
                try:
                    yield json.loads(json.loads(ln))
                except Exception as e:  # pragma: no cover
                    raise MachineryError(f"unparsable JSON line from TLC: {ln[:200]}") from e

    def values(self) -> Iterator[Any]:
        """PrintT(<<...>>) lines parsed as TLA+ values."""
        for ln in self.printed:
            if ln.startswith("<<") or ln.startswith("[") or ln.startswith("{"):
                yield parse_value(ln)


_STATS = re.compile(r"^(\d+) states generated, (\d+) distinct states found, (\d+) states left on queue")
_DEPTH = re.compile(r"^The depth of the complete state graph search is (\d+)")
_INV = re.compile(r"^Error: Invariant (\S+) is violated")
_PROP = re.compile(r"^Error: (?:Action|Temporal) propert(?:y|ies) (\S+)? ?(?:line .*)?(?:is|was|were) violated")
_COV = re.compile(r"^<(\w+) line \d+, col \d+ to line \d+, col \d+ of module (\w+)>: (\d+):(\d+)")
_CHATTER = re.compile(
    r"^(TLC2 Version|Linting of|Running |Parsing file|Semantic processing|Starting\.\.\.|Implied-temporal|"
    r"Computing initial|Computed \d+ initial|Finished computing|Finished in|Model checking completed|"
    r"Progress\(|Checking |Warning:|  |\s*$|@!@!@|The number of states|The depth of|Finished\.|"
    r"The coverage|End of statistics|\d+ states generated|based on the actual|calculated \(optimistic\)|"
    r"Mode: |Starting|The average outdegree|Picked up JAVA|Generating |Progress:|Simulation|"
    r"The number of |Loading |CopyOnWrite|Error:|State \d+:|/\\|<\w+ line \d+|Back to state|"
    r"The behavior up to|The error occurred|\d+\. Line|\(TLC|Stopping|The first argument|While working|"
    r"TLC threw|To print|line \d+, col|The invariant|The postcondition|Checkpointing)")


def run(module: str,
        cfg: str,
        *,
        workers: int = 16,
        cwd: Optional[Path] = None,
        extra: Optional[List[str]] = None,
        env: Optional[Dict[str, str]] = None,
        timeout: float = 3600,
        coverage: bool = False,
        deadlock: bool = False,
        heap: str = "8g",
        dfs: bool = False) -> TlcResult:
    """Run TLC on spec/<module>.tla with spec/<cfg>; returns parsed result."""
    cwd = cwd or SPEC
    meta = workdir("meta")
    # java.io.tmpdir: TLC unpacks its module jars into a fresh temporary directory on every start and leaves it behind
    # -Xss: the recursive operators of the codec reference go deep; with the default thread stack a StackOverflowError came and
    # went with the JIT's frame sizes (three thorough runs failed once and passed on the next start)
    jopts = [f"-Xmx{heap}", "-Xss64m", "-XX:+UseParallelGC", f"-DTLA-Library={SPEC}", f"-Djava.io.tmpdir={meta}"]
    if dfs:
        jopts.append("-Dtlc2.tool.queue.IStateQueue=StateDeque")
    cmd = ["java", *jopts, "-cp", JAR, "tlc2.TLC", "-workers", str(workers), "-metadir", str(meta),
           "-noGenerateSpecTE", "-config", cfg]
    if not deadlock:
        cmd.append("-deadlock")  # -deadlock switches deadlock checking OFF
    if coverage:
        cmd += ["-coverage", "1"]
    if extra:
        cmd += extra
    cmd.append(module)
    if os.environ.get("VERIF_DEBUG"):
        print("[tlc]", " ".join(cmd), flush=True)
    e = dict(os.environ)
    e.pop("JAVA_TOOL_OPTIONS", None)
    if env:
        e.update(env)
    t0 = time.time()
    try:
        p = subprocess.run(cmd, cwd=str(cwd), env=e, capture_output=True, text=True, timeout=timeout)
        out, rc = p.stdout + p.stderr, p.returncode
    except subprocess.TimeoutExpired as ex:
        out = (ex.stdout or b"").decode() if isinstance(ex.stdout, bytes) else (ex.stdout or "")
        out += "\nError: TLC timed out (machinery)\n"
        rc = 124
    finally:
        rmtree(meta)
    res = TlcResult(cmd=cmd, stdout=out, returncode=rc, wall_s=time.time() - t0)
    _parse(res)
    return res


def _parse(res: TlcResult) -> None:
    for ln in res.stdout.splitlines():
        m = _STATS.match(ln)
        if m:
            res.generated, res.distinct, res.left = int(m[1]), int(m[2]), int(m[3])
            continue
        m = _DEPTH.match(ln)
        if m:
            res.depth = int(m[1])
            continue
        m = _INV.match(ln)
        if m:
            res.violated.append(m[1])
            continue
        if ln.startswith("Error: Action property") or ln.startswith("Error: Temporal propert"):
            res.violated.append(ln[len("Error: "):])
            continue
        if ln.startswith("Error: The postcondition") or "postcondition" in ln.lower() and "false" in ln.lower():
            res.postcondition_failed = True
            continue
        if ln.startswith("Error:"):
            if "The behavior up to this point" in ln or "Deadlock reached" in ln and False:
                continue
            res.errors.append(ln)
            continue
        m = _COV.match(ln)
        if m:
            res.coverage[m[1]] = (int(m[3]), int(m[4]))
            continue
        if not _CHATTER.match(ln):
            res.printed.append(ln.rstrip())
    # "The behavior up to this point is:" follows an invariant violation; not an extra error
    res.errors = [e for e in res.errors if "The behavior up to this point" not in e]
    if res.violated:
        res.errors = [e for e in res.errors if "is violated" not in e]


# ---------------------------------------------------------------------------------------
# TLA+ value parser (for PrintT output and dot node labels)

class Fn(dict):
    """A TLA+ function/record printed as [a |-> 1] or (k :> v @@ ...)."""


_TOK = re.compile(r'\s*(<<|>>|\|->|:>|@@|\[|\]|\{|\}|\(|\)|,|"(?:[^"\\]|\\.)*"|-?\d+|[A-Za-z_][A-Za-z0-9_!]*)')


def _tokens(s: str) -> List[str]:
    out, i = [], 0
    while i < len(s):
        m = _TOK.match(s, i)
        if not m:
            if s[i:].strip() == "":
                break
            raise MachineryError(f"cannot tokenize TLA+ value at {s[i:i+40]!r}")
        out.append(m[1])
        i = m.end()
    return out


def parse_value(s: str) -> Any:
    toks = _tokens(s)
    v, i = _pv(toks, 0)
    if i != len(toks):
        raise MachineryError(f"trailing tokens in TLA+ value: {toks[i:i+5]}")
    return v


def _freeze(v: Any) -> Any:
    if isinstance(v, dict):
        return tuple(sorted((_freeze(k), _freeze(x)) for k, x in v.items()))
    if isinstance(v, (list, tuple)):
        return tuple(_freeze(x) for x in v)
    if isinstance(v, (set, frozenset)):
        return frozenset(_freeze(x) for x in v)
    return v


def _pv(t: List[str], i: int) -> Tuple[Any, int]:
    k = t[i]
    if k == "<<":
        out = []
        i += 1
        while t[i] != ">>":
            v, i = _pv(t, i)
            out.append(v)
            if t[i] == ",":
                i += 1
        return tuple(out), i + 1
    if k == "{":
        outl = []
        i += 1
        while t[i] != "}":
            v, i = _pv(t, i)
            outl.append(v)
            if t[i] == ",":
                i += 1
        return frozenset(_freeze(x) for x in outl), i + 1
    if k == "[":
        f = Fn()
        i += 1
        while t[i] != "]":
            name = t[i]
            assert t[i + 1] == "|->", t[i:i + 3]
            v, i = _pv(t, i + 2)
            f[name] = v
            if t[i] == ",":
                i += 1
        return f, i + 1
    if k == "(":
        f = Fn()
        i += 1
        while True:
            kk, i = _pv(t, i)
            assert t[i] == ":>", t[i - 2:i + 2]
            v, i = _pv(t, i + 1)
            f[_freeze(kk)] = v
            if t[i] == "@@":
                i += 1
                continue
            assert t[i] == ")"
            return f, i + 1
    if k.startswith('"'):
        return json.loads(k), i + 1
    if k == "TRUE":
        return True, i + 1
    if k == "FALSE":
        return False, i + 1
    if re.fullmatch(r"-?\d+", k):
        return int(k), i + 1
    return k, i + 1  # model value / identifier


# ---------------------------------------------------------------------------------------
# dot graphs dumped with -dump dot,actionlabels

@dataclass
class Graph:
    init: List[str]
    nodes: Dict[str, Dict[str, Any]]  # id -> {var: value}
    edges: List[Tuple[str, str, str]]  # (src, dst, action label)


_NODE = re.compile(r'^(-?\d+) \[label="((?:[^"\\]|\\.)*)"')
_EDGE = re.compile(r'^(-?\d+) -> (-?\d+) \[label="((?:[^"\\]|\\.)*)"')


def _unescape(lbl: str) -> str:
    return lbl.replace('\\"', '"').replace("\\\\", "\\")


def parse_state_label(lbl: str) -> Dict[str, Any]:
    """`/\\ a = 1\\n/\\ b = <<>>` or `a = 1` → {a: 1, b: ()}"""
    txt = _unescape(lbl)
    parts = [p for p in txt.split("\\n") if p.strip()]
    st: Dict[str, Any] = {}
    cur = None
    for p in parts:
        p = p.strip()
        if p.startswith("/\\"):
            p = p[2:].strip()
        m = re.match(r"^([A-Za-z_][A-Za-z0-9_]*) = (.*)$", p)
        if m:
            cur = m[1]
            st[cur] = m[2]
        elif cur is not None:
            st[cur] += " " + p
    return {k: parse_value(v) for k, v in st.items()}


def read_dot(path: Path) -> Graph:
    nodes: Dict[str, Dict[str, Any]] = {}
    edges: List[Tuple[str, str, str]] = []
    init: List[str] = []
    with open(path) as f:
        for ln in f:
            ln = ln.strip()
            m = _EDGE.match(ln)
            if m:
                edges.append((m[1], m[2], _unescape(m[3])))
                continue
            m = _NODE.match(ln)
            if m:
                nodes[m[1]] = parse_state_label(m[2])
                if "style = filled" in ln:
                    init.append(m[1])
    return Graph(init=init, nodes=nodes, edges=edges)


def sany(module_path: Path) -> Tuple[bool, str]:
    tmp = workdir("sany")        # (the parser unpacks the standard modules into java.io.tmpdir and leaves them there)
    try:
        p = subprocess.run(["java", f"-Djava.io.tmpdir={tmp}", "-cp", JAR, "tla2sany.SANY", module_path.name],
                           cwd=str(module_path.parent), capture_output=True, text=True)
    finally:
        rmtree(tmp)
    out = p.stdout + p.stderr
    ok = p.returncode == 0 and "Semantic errors" not in out and "Parse Error" not in out and "Fatal errors" not in out \
        and "*** Errors" not in out
    return ok, out
