"""The session machine of the snoop tool (spec/Snoop.tla) replayed into odxtools.cli.snoop.handle_telegram.

TLC enumerates every session of Depth telegrams over the alphabet of MC_Snoop.tla with the class the user must read for each
telegram; the real handler is driven with the same telegrams (its module state reset per session) and its printed line is
classified.  Used by C13 (processing a telegram never raises) and by C06 (a response is found through the request that
triggered it - and only through it).
"""
from __future__ import annotations

import contextlib
import io
import re
from typing import Any, Dict, List, Tuple

from . import tlc

RX_ID, TX_ID = 0x7E0, 0x7E8


def sessions() -> Tuple[tlc.TlcResult, List[List[Dict[str, Any]]]]:
    res = tlc.run("MC_Snoop.tla", "MC_Snoop.cfg", timeout=600)
    if not res.ok:
        raise tlc.MachineryError(f"TLC failed on Snoop: {res.violated} {res.errors[:3]}\n{res.stdout[-2000:]}")
    return res, [r["hist"] for r in res.json_lines()]


def classify(side: str, text: str) -> str:
    t = text.strip("\n")
    if side == "tester":
        if t.startswith("request "):
            return "decoded"
        if t.startswith("Tester:"):
            return "raw"
        return "?"
    if "(response pending)" in t:
        return "pending"
    if t.lstrip().startswith("unrecognized response"):
        return "unrecognized"
    if re.match(r"^ (positive|negative|unknown) response", t):
        return "recognized"
    return "?"


def replay(hists: List[List[Dict[str, Any]]]) -> Dict[str, Any]:
    """-> {"raises": [...], "classes": [...], "stats": {...}} (cases are JSON-able dictionaries)"""
    import odxtools.cli.snoop as sn
    from .checks.c06 import build_layer
    layer = build_layer(["Sa", "Sb", "Si"], ["GNR1"])
    raises: List[Dict[str, Any]] = []
    classes: List[Dict[str, Any]] = []
    st = {"sessions": 0, "telegrams": 0, "recognized": 0, "pending": 0, "unrecognized_without_context": 0, "any": 0}
    for h in hists:
        st["sessions"] += 1
        sn.odx_diag_layer = layer
        sn.ecu_rx_id, sn.ecu_tx_id = RX_ID, TX_ID
        sn.last_request = None
        for k, e in enumerate(h):
            st["telegrams"] += 1
            buf = io.StringIO()
            case = {"machine": "Snoop", "session": [[x["side"], x["p"]] for x in h[:k + 1]], "side": e["side"], "expected": e["class"]}
            try:
                with contextlib.redirect_stdout(buf):
                    sn.handle_telegram(RX_ID if e["side"] == "tester" else TX_ID, bytes(e["p"]))
            except Exception as ex:  # noqa: BLE001
                raises.append({**case, "exc": f"{type(ex).__name__}: {str(ex)[:100]}"})
                break
            got = classify(e["side"], buf.getvalue())
            st["recognized"] += e["class"] == "recognized"
            st["pending"] += e["class"] == "pending"
            st["unrecognized_without_context"] += e["class"] == "unrecognized" and e["ctx"] == [-1]
            if e["class"] == "any":
                st["any"] += 1
                continue
            if got != e["class"]:
                classes.append({**case, "got": got, "printed": buf.getvalue()[:200]})
                break
    return {"raises": raises[:100], "classes": classes[:100], "stats": st}


def check_into(v: Any, prop: str, replay_case: Any = None) -> Dict[str, Any]:
    """run the session replay and file the failures that concern `prop` (C13: exceptions; C06: what is recognized)"""
    res, hs = sessions()
    if replay_case is not None:
        want = [[x[0], list(x[1])] for x in replay_case["session"]]
        hs = [h for h in hs if [[x["side"], x["p"]] for x in h[:len(want)]] == want][:1]
    out = replay(hs)
    for c in out["raises"]:
        if prop == "C13":
            v.fail("snoop_raises", {**c, "origin": "snoop", "nids": 1, "active": False, "frames": [], "frame_kind": "telegram"})
        else:
            v.fail("exception", {**c, "services": ["Sa", "Sb", "Si"], "gnrs": ["GNR1"], "nservices": 3, "message": ""})
    for c in out["classes"]:
        if prop == "C06":
            v.fail("snoop_session", {**c, "services": ["Sa", "Sb", "Si"], "gnrs": ["GNR1"], "nservices": 3})
        else:
            v.diverge("snoop_session", c)
    st = out["stats"]
    # (what the sessions contain, not how far the replay got: a handler that raises ends its session)
    exp = {"recognized": sum(e["class"] == "recognized" for h in hs for e in h), "pending": sum(e["class"] == "pending" for h in hs for e in h),
           "unrecognized_without_context": sum(e["class"] == "unrecognized" and e["ctx"] == [-1] for h in hs for e in h)}
    if replay_case is None and not all(exp.values()):
        v.vacuous(f"vacuity: {exp}")
    return {"states": res.distinct, **st}
