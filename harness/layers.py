"""Layer hierarchies: spec/Layers.tla configurations -> ODX XML -> real layers; clauses of C09 and C15."""
from __future__ import annotations

import json
import multiprocessing as mp
from typing import Any, Dict, List, Optional, Tuple

from . import odxgen as og
from . import tlc

TEMPLATES = {
    "quick": [
        ("chain", ["PROTOCOL", "FUNCTIONAL-GROUP", "BASE-VARIANT", "ECU-VARIANT"], ["o"], []),
        ("two_shared", ["ECU-SHARED-DATA", "ECU-SHARED-DATA", "BASE-VARIANT", "ECU-VARIANT"], ["o"], []),
        ("two_protocols", ["PROTOCOL", "PROTOCOL", "BASE-VARIANT", "ECU-VARIANT"], ["o"], []),
        ("two_names", ["PROTOCOL", "ECU-SHARED-DATA", "BASE-VARIANT"], ["o", "p"], []),
        # two parents of equal priority with two names each: a conflict on one name (settled locally) next to another object
        ("two_protocols_two_names", ["PROTOCOL", "PROTOCOL", "BASE-VARIANT"], ["o", "p"], []),
        ("comparams", ["PROTOCOL", "BASE-VARIANT", "ECU-VARIANT"], [], [["cp1", ""], ["cp1", "L1"], ["cpx", ""]]),
        ("comparams_two_protocols", ["PROTOCOL", "PROTOCOL", "BASE-VARIANT"], [], [["cp1", ""], ["cp1", "L1"], ["cpx", "L1"]]),
        # PARENT-REFs written in descending layer order (functional group before protocol; second protocol before first)
        ("comparams_group_rev", ["PROTOCOL", "FUNCTIONAL-GROUP", "BASE-VARIANT"], [], [["cp1", ""], ["cpx", ""], ["cpx", "L1"]], True),
        ("comparams_two_protocols_rev", ["PROTOCOL", "PROTOCOL", "BASE-VARIANT"], [], [["cp1", ""], ["cpx", ""], ["cpx", "L1"]], True),
        ("two_names_rev", ["PROTOCOL", "ECU-SHARED-DATA", "BASE-VARIANT"], ["o", "p"], [], True),
        # two parents of equal priority that disagree, settled by a third parent of higher priority
        ("two_protocols_shared", ["PROTOCOL", "PROTOCOL", "ECU-SHARED-DATA", "BASE-VARIANT"], ["o"], []),
        # a layer without communication parameters (ECU-SHARED-DATA) listed after layers that have them
        ("comparams_shared", ["PROTOCOL", "ECU-SHARED-DATA", "BASE-VARIANT"], [], [["cp1", ""], ["cpx", ""]]),
        ("comparams_two_subsets", ["PROTOCOL", "BASE-VARIANT", "ECU-VARIANT"], [], [["cp1", ""], ["cp1b", ""], ["cpx", ""]]),
    ],
    "thorough": [
        ("chain", ["PROTOCOL", "FUNCTIONAL-GROUP", "BASE-VARIANT", "ECU-VARIANT"], ["o"], []),
        ("two_shared", ["ECU-SHARED-DATA", "ECU-SHARED-DATA", "BASE-VARIANT", "ECU-VARIANT"], ["o"], []),
        ("two_protocols", ["PROTOCOL", "PROTOCOL", "BASE-VARIANT", "ECU-VARIANT"], ["o"], []),
        ("two_groups", ["PROTOCOL", "FUNCTIONAL-GROUP", "FUNCTIONAL-GROUP", "BASE-VARIANT"], ["o"], []),
        ("shared_chain", ["ECU-SHARED-DATA", "PROTOCOL", "FUNCTIONAL-GROUP", "BASE-VARIANT"], ["o"], []),
        ("five", ["ECU-SHARED-DATA", "PROTOCOL", "FUNCTIONAL-GROUP", "BASE-VARIANT", "ECU-VARIANT"], ["o"], []),
        ("two_names", ["PROTOCOL", "ECU-SHARED-DATA", "BASE-VARIANT", "ECU-VARIANT"], ["o", "p"], []),
        ("two_protocols_two_names", ["PROTOCOL", "PROTOCOL", "BASE-VARIANT"], ["o", "p"], []),
        ("comparams", ["PROTOCOL", "FUNCTIONAL-GROUP", "BASE-VARIANT", "ECU-VARIANT"], [],
         [["cp1", ""], ["cp1", "L1"], ["cpx", ""], ["cpx", "L1"]]),
        ("comparams_two_protocols", ["PROTOCOL", "PROTOCOL", "BASE-VARIANT", "ECU-VARIANT"], [],
         [["cp1", ""], ["cp1", "L1"], ["cpx", ""]]),
        ("comparams_rev", ["PROTOCOL", "FUNCTIONAL-GROUP", "BASE-VARIANT", "ECU-VARIANT"], [],
         [["cp1", ""], ["cp1", "L1"], ["cpx", ""], ["cpx", "L1"]], True),
        ("comparams_two_protocols_rev", ["PROTOCOL", "PROTOCOL", "BASE-VARIANT", "ECU-VARIANT"], [],
         [["cp1", ""], ["cpx", "L1"], ["cpx", ""]], True),
        ("two_names_rev", ["PROTOCOL", "ECU-SHARED-DATA", "BASE-VARIANT", "ECU-VARIANT"], ["o", "p"], [], True),
        ("two_protocols_shared", ["PROTOCOL", "PROTOCOL", "ECU-SHARED-DATA", "BASE-VARIANT", "ECU-VARIANT"], ["o"], []),
        ("comparams_shared", ["PROTOCOL", "ECU-SHARED-DATA", "BASE-VARIANT", "ECU-VARIANT"], [], [["cp1", ""], ["cpx", ""], ["cp1", "L1"]]),
        ("comparams_two_subsets", ["PROTOCOL", "BASE-VARIANT", "ECU-VARIANT"], [], [["cp1", ""], ["cp1b", ""], ["cpx", ""], ["cp1b", "L1"]]),
    ],
}


def templates(tier: str) -> List[Tuple[str, List[str], List[str], List[List[str]], bool]]:
    return [(t[0], t[1], t[2], t[3], bool(t[4]) if len(t) > 4 else False) for t in TEMPLATES[tier]]   # type: ignore[misc]


def run_model(name: str, types: List[str], names: List[str], cpkeys: List[List[str]], rev: bool = False) -> Tuple[tlc.TlcResult, List[Dict[str, Any]]]:
    wd = tlc.workdir("layers")
    try:
        q = lambda xs: "{" + ", ".join(f'"{x}"' for x in xs) + "}"   # noqa: E731
        tt = ", ".join(f'"{t}"' for t in types)
        keys = "{" + ", ".join(f'<<"{k[0]}", "{k[1]}">>' for k in cpkeys) + "}"
        (wd / "MCL.tla").write_text(f"---- MODULE MCL ----\nEXTENDS MC_Layers\nT == <<{tt}>>\nK == {keys}\n====\n")
        (wd / "MCL.cfg").write_text(f"SPECIFICATION Spec\nCONSTANTS\n  Template <- T\n  Names = {q(names)}\n  CpKeys <- K\n"
                                    f"  MaxCp = {2 if cpkeys else 0}\n  Rev = {'TRUE' if rev else 'FALSE'}\nINVARIANT MergeIsView\nINVARIANT LocalWins\n"
                                    "PROPERTY ParentsUnaffected\nINVARIANT Emit\n")
        res = tlc.run("MCL.tla", "MCL.cfg", cwd=wd, timeout=3000)
        if not res.ok:
            raise tlc.MachineryError(f"TLC failed on Layers ({name}): {res.violated} {res.errors[:3]}\n{res.stdout[-2000:]}")
        return res, list(res.json_lines())
    finally:
        tlc.rmtree(wd)


# ---------------------------------------------------------------------------------------
# configuration -> XML

CS_DOC = og.comparam_spec_doc("CS", "CS")


def subset_doc() -> str:
    dop = og.dop("CSS.DOP", "u32", og.dct_standard("A_UINT32", 32))

    def cp(oid: str, name: str, default: str) -> str:
        return og.tag("COMPARAM", og.sn(name) + f"<PHYSICAL-DEFAULT-VALUE>{default}</PHYSICAL-DEFAULT-VALUE>" +
                      og.ref("DATA-OBJECT-PROP-REF", "CSS.DOP"),
                      **{"ID": oid, "PARAM-CLASS": "COM", "CPTYPE": "STANDARD", "CPUSAGE": "ECU-COMM"})
    # a nested complex sub-parameter in front of the simple ones (sub-values are positional)
    nested = og.tag("COMPLEX-COMPARAM", og.sn("CP_Nested") + cp("CSS.sub0a", "CP_Inner", "7"),
                    **{"ID": "CSS.sub0", "PARAM-CLASS": "COM", "CPTYPE": "STANDARD", "CPUSAGE": "ECU-COMM"})
    cx = og.tag("COMPLEX-COMPARAM", og.sn("CP_UniqueRespIdTable") + nested + cp("CSS.sub1", "CP_CanPhysReqId", "2016") +
                cp("CSS.sub2", "CP_CanRespUSDTId", "2024"),
                **{"ID": "CSS.cpx", "PARAM-CLASS": "UNIQUE_ID", "CPTYPE": "STANDARD", "CPUSAGE": "ECU-COMM"})
    body = og.tag("COMPARAMS", cp("CSS.cp1", "CP_Baudrate", "500000")) + og.tag("COMPLEX-COMPARAMS", cx) + \
        og.tag("DATA-OBJECT-PROPS", dop)
    return og.comparam_subset_doc("CSS", "CSS", body)


def subset2_doc() -> str:
    """a second subset with a parameter of the same short name as one of the first (a parameter is its specification, not its name)"""
    dop = og.dop("CSS2.DOP", "u32", og.dct_standard("A_UINT32", 32))
    cp = og.tag("COMPARAM", og.sn("CP_Baudrate") + "<PHYSICAL-DEFAULT-VALUE>125000</PHYSICAL-DEFAULT-VALUE>" +
                og.ref("DATA-OBJECT-PROP-REF", "CSS2.DOP"),
                **{"ID": "CSS2.cp1", "PARAM-CLASS": "COM", "CPTYPE": "STANDARD", "CPUSAGE": "ECU-COMM"})
    return og.comparam_subset_doc("CSS2", "CSS2", og.tag("COMPARAMS", cp) + og.tag("DATA-OBJECT-PROPS", dop))


CP_ID = {"cp1": "CSS.cp1", "cpx": "CSS.cpx", "cp1b": "CSS2.cp1"}
CP_NAME = {"cp1": "CP_Baudrate", "cpx": "CP_UniqueRespIdTable", "cp1b": "CP_Baudrate"}


def comparam_ref(key: List[str], layer_idx: int) -> str:
    name, proto = key
    if name == "cp1b":
        val = f"<SIMPLE-VALUE>{1000 * layer_idx + (1 if proto else 0)}</SIMPLE-VALUE><DESC><p>owner {layer_idx}</p></DESC>"
    elif name == "cp1":
        # every third layer leaves the value out (the default of the specification applies); the owner is told by the DESC
        v1 = "" if layer_idx % 3 == 0 else str(1000 * layer_idx + (1 if proto else 0))
        # (protocol-specific ones in the ODX 2.0.0 spelling VALUE)
        vt = "VALUE" if proto else "SIMPLE-VALUE"
        val = f"<{vt}>{v1}</{vt}><DESC><p>owner {layer_idx}</p></DESC>"
    else:
        # odd layers leave the second sub-value out (the default of the specification applies)
        second = "" if layer_idx % 2 else str(200 + layer_idx)
        val = og.tag("COMPLEX-VALUE", "<COMPLEX-VALUE><SIMPLE-VALUE>9</SIMPLE-VALUE></COMPLEX-VALUE>"
                     f"<SIMPLE-VALUE>{100 + layer_idx + (50 if proto else 0)}</SIMPLE-VALUE>"
                     f"<SIMPLE-VALUE>{second}</SIMPLE-VALUE>")
    body = val + (og.snref("PROTOCOL-SNREF", proto) if proto else "")
    return og.tag("COMPARAM-REF", body, **{"ID-REF": CP_ID[name], "DOCREF": CP_ID[name].split(".")[0], "DOCTYPE": "COMPARAM-SUBSET"})


def build_docs(cfg: Dict[str, Any]) -> List[str]:
    types = cfg["types"]
    layers = []
    for i, t in enumerate(types, 1):
        lay = og.Layer(t, f"L{i}.id", f"L{i}")
        if t == "PROTOCOL":
            lay.comparam_spec_ref = og.ref("COMPARAM-SPEC-REF", "CS", "CS", "COMPARAM-SPEC")
        for n in cfg["defs"][i - 1]:
            tagname = f"{n}@L{i}"
            lay.dops.append(og.dop(f"L{i}.DOP.{n}", n, og.dct_standard("A_UINT32", 8)).replace(
                f"<SHORT-NAME>{n}</SHORT-NAME>", f"<SHORT-NAME>{n}</SHORT-NAME><LONG-NAME>{tagname}</LONG-NAME>", 1))
            lay.tables.append(og.table(f"L{i}.TAB.{n}", n, None, []).replace(
                f"<SHORT-NAME>{n}</SHORT-NAME>", f"<SHORT-NAME>{n}</SHORT-NAME><LONG-NAME>{tagname}</LONG-NAME>", 1))
            lay.requests.append(og.request(f"L{i}.RQ.{n}", f"RQ_{n}", [og.p_const8("sid", 0x22 if n == "o" else 0x2E, bytepos=0),
                                                                          og.p_const8("who", i, bytepos=1)]))
            lay.diag_comms.append(og.service(f"L{i}.DC.{n}", n, f"L{i}.RQ.{n}").replace(
                f"<SHORT-NAME>{n}</SHORT-NAME>", f"<SHORT-NAME>{n}</SHORT-NAME><LONG-NAME>{tagname}</LONG-NAME>", 1))
            lay.diag_comms.append(og.single_ecu_job(f"L{i}.JOB.{n}", f"{n}_job").replace(
                f"<SHORT-NAME>{n}_job</SHORT-NAME>", f"<SHORT-NAME>{n}_job</SHORT-NAME><LONG-NAME>{tagname}</LONG-NAME>", 1))
            # services and jobs share one name space: the same name is a service in odd layers and a job in even ones
            if i % 2:
                lay.requests.append(og.request(f"L{i}.RQM.{n}", f"RQM_{n}", [og.p_const8("sid", 0x31 if n == "o" else 0x32, bytepos=0),
                                                                               og.p_const8("who", i, bytepos=1)]))
                lay.diag_comms.append(og.service(f"L{i}.DCM.{n}", f"{n}_mix", f"L{i}.RQM.{n}").replace(
                    f"<SHORT-NAME>{n}_mix</SHORT-NAME>", f"<SHORT-NAME>{n}_mix</SHORT-NAME><LONG-NAME>{tagname}</LONG-NAME>", 1))
            else:
                lay.diag_comms.append(og.single_ecu_job(f"L{i}.JOBM.{n}", f"{n}_mix").replace(
                    f"<SHORT-NAME>{n}_mix</SHORT-NAME>", f"<SHORT-NAME>{n}_mix</SHORT-NAME><LONG-NAME>{tagname}</LONG-NAME>", 1))
            lay.gnrs.append(og.response("GLOBAL-NEG-RESPONSE", f"L{i}.GNR.{n}", n, [og.p_const8("sid", 0x7F, bytepos=0)]).replace(
                f"<SHORT-NAME>{n}</SHORT-NAME>", f"<SHORT-NAME>{n}</SHORT-NAME><LONG-NAME>{tagname}</LONG-NAME>", 1))
            lay.funct_classes.append(og.tag("FUNCT-CLASS", og.sn(n, tagname), ID=f"L{i}.FC.{n}"))
            lay.state_charts.append(og.tag("STATE-CHART", og.sn(n, tagname) + "<SEMANTIC>x</SEMANTIC><START-STATE-SNREF SHORT-NAME=\"s\"/>" +
                                           og.tag("STATES", og.tag("STATE", og.sn("s"), ID=f"L{i}.ST.{n}")), ID=f"L{i}.SC.{n}"))
            lay.additional_audiences.append(og.tag("ADDITIONAL-AUDIENCE", og.sn(n, tagname), ID=f"L{i}.AA.{n}"))
        ug = "".join(og.tag("UNIT-GROUP", og.sn(n, f"{n}@L{i}") + "<CATEGORY>COUNTRY</CATEGORY>") for n in cfg["defs"][i - 1])
        if ug:
            lay.unit_spec = og.tag("UNIT-SPEC", og.tag("UNIT-GROUPS", ug))
        nimap = {int(p): list(names) for (p, names) in cfg["ni"][i - 1]}
        for p in (reversed(cfg["parents"][i - 1]) if cfg.get("rev") else cfg["parents"][i - 1]):
            names = nimap.get(int(p), [])
            lay.parent_refs.append(og.parent_ref(f"L{p}.id", types[p - 1], f"DLC{p}" if cfg.get("rev") else "DLC",
                                                 ni_diag_comms=[x for n in names for x in (n, f"{n}_job", f"{n}_mix")],
                                                 ni_dops=names, ni_tables=names, ni_gnrs=names))
        if t != "ECU-SHARED-DATA":
            for key in cfg["cps"][i - 1]:
                lay.comparam_refs.append(comparam_ref(list(key), i))
        layers.append(lay)
    if cfg.get("rev"):
        # one container per layer, children in front of their parents (the order in which documents are resolved and finalized
        # must not matter)
        return [CS_DOC, subset_doc(), subset2_doc()] + [og.container(f"DLC{i}", f"DLC{i}", [layers[i - 1]]) for i in range(len(layers), 0, -1)]
    return [CS_DOC, subset_doc(), subset2_doc(), og.container("DLC", "DLC", layers)]


def owner(obj: Any) -> int:
    """index of the defining layer, from the LONG-NAME tag name@Lk"""
    ln = getattr(obj, "long_name", None) or ""
    return int(ln.split("@L")[1]) if "@L" in ln else -1


CATS_WITH_NI = ("services", "jobs", "mixed_diag_comms", "dops", "tables", "gnrs")
CATS_NO_NI = ("functional_classes", "state_charts", "additional_audiences", "unit_groups")


def real_views(layer: Any) -> Dict[str, Dict[str, int]]:
    def attr(name: str) -> List[Any]:
        # ECU-SHARED-DATA layers do not take part in inheritance: their view is what they define
        v = getattr(layer, name, None)
        if v is None:
            v = getattr(layer.diag_layer_raw, name, None)
        return list(v) if v is not None else []
    ddds = layer.diag_data_dictionary_spec
    us = ddds.unit_spec if ddds is not None else None
    def mix(objs: List[Any], want: bool) -> List[Any]:
        return [o for o in objs if o.short_name.endswith("_mix") == want]
    cats = {
        "services": mix(attr("services"), False), "jobs": mix(attr("single_ecu_jobs"), False),
        "mixed_diag_comms": mix(attr("services") + attr("single_ecu_jobs"), True),
        "dops": list(ddds.data_object_props) if ddds else [], "tables": list(ddds.tables) if ddds else [],
        "gnrs": attr("global_negative_responses"), "functional_classes": attr("functional_classes"),
        "state_charts": attr("state_charts"), "additional_audiences": attr("additional_audiences"),
        "unit_groups": list(us.unit_groups) if us else [],
    }
    out: Dict[str, Dict[str, int]] = {}
    for c, objs in cats.items():
        d: Dict[str, int] = {}
        for o in objs:
            n = o.short_name[:-4] if o.short_name.endswith(("_job", "_mix")) else o.short_name
            d[n] = owner(o) if n not in d else -99   # the same name twice in one view
        out[c] = d
    return out


def _init(repo: str) -> None:
    import warnings
    from . import common
    common.REPO = common.Path(repo)
    common.import_repo()
    warnings.simplefilter("ignore")


def process(cfgs: List[Dict[str, Any]]) -> Dict[str, Any]:
    from odxtools.exceptions import DecodeError, OdxError
    fails: List[Tuple[str, str, Dict[str, Any]]] = []
    st = {"configs": 0, "clash_configs": 0, "views": 0, "excluded": 0, "overridden": 0, "decodes": 0, "comparam_lookups": 0,
          "accessor_calls": 0, "default_fallbacks": 0, "protocol_objects": 0, "payload_sizes": 0, "absent_accessors": 0, "refreshes": 0, "edits": 0}

    def fail(prop: str, clause: str, cfg: Dict[str, Any], detail: Dict[str, Any]) -> None:
        if len(fails) < 300:
            fails.append((prop, clause, {"machine": "Layers", "types": cfg["types"], "parents": cfg["parents"], "defs": cfg["defs"],
                                         "ni": cfg["ni"], "cps": cfg["cps"], "rev": bool(cfg.get("rev", False)), **detail}))
    for cfg in cfgs:
        st["configs"] += 1
        st["clash_configs"] += bool(cfg["clash"])
        try:
            db = og.load(build_docs(cfg))
            exc = None
        except OdxError as e:
            db, exc = None, e
        except Exception as e:  # noqa: BLE001
            fail("*", "load_raises_foreign_exception", cfg, {"exc": type(e).__name__, "msg": str(e)[:200]})
            continue
        if cfg["clash"]:
            if exc is None:
                fail("C09", "clash_not_reported", cfg, {})
            continue
        if exc is not None:
            fail("*", "spurious_load_error", cfg, {"exc": type(exc).__name__, "msg": str(exc)[:200]})
            continue
        n = len(cfg["types"])
        layers = {i: db.diag_layers[f"L{i}"] for i in range(1, n + 1)}
        def eff_check(i: int, eff: List[Any], phase: str) -> None:
            eff_real = {(CP_KEY(cp), cp.protocol_snref or ""): cp for cp in layers[i].comparam_refs}
            for (key, own) in eff:
                k2 = (key[0], key[1])
                got = eff_real.get(k2)
                if (own == 0) != (got is None):
                    fail("C15", "effective_set", cfg, {"layer": i, "key": key, "expected_owner": own, "present": got is not None,
                                                       "phase": phase})
                elif got is not None and _cp_owner(got) != own:
                    fail("C15", "effective_owner", cfg, {"layer": i, "key": key, "expected_owner": own, "got_owner": _cp_owner(got),
                                                         "phase": phase})

        def views(i: int, phase: str) -> None:
            real = real_views(layers[i])
            for (name, with_ni, without_ni) in cfg["view"][i - 1]:
                for cat in CATS_WITH_NI + CATS_NO_NI:
                    want = with_ni if cat in CATS_WITH_NI else without_ni
                    got = real[cat].get(name, 0)
                    if got != want:
                        fail("C09", "visible_set", cfg, {"layer": i, "category": cat, "name": name, "expected_owner": want,
                                                         "got_owner": got, "phase": phase})
            # nothing else is visible (an object listed twice shows up under a second name)
            known = {name for (name, _w, _wo) in cfg["view"][i - 1]}
            for cat in CATS_WITH_NI + CATS_NO_NI:
                extra = sorted(set(real[cat]) - known)
                if extra:
                    fail("C09", "visible_set", cfg, {"layer": i, "category": cat, "name": extra[0], "expected_owner": 0,
                                                     "got_owner": real[cat][extra[0]], "phase": phase, "unexpected_names": extra})
        for i in range(1, n + 1):
            views(i, "load")
            for (name, with_ni, without_ni) in cfg["view"][i - 1]:
                st["views"] += 1
                st["excluded"] += with_ni != without_ni
                st["overridden"] += with_ni == i and any(int(p) for p in cfg["parents"][i - 1])
                # behaviour: the request of the visible definition decodes on this layer, nothing else does
                sid = 0x22 if name == "o" else 0x2E
                for k in range(1, n + 1):
                    st["decodes"] += 1
                    try:
                        msgs = layers[i].decode(bytes([sid, k]))
                        hit = sorted(owner(m.service) for m in msgs)
                    except DecodeError:
                        hit = []
                    if hit != ([k] if with_ni == k else []):
                        fail("C09", "decode_inherited_service", cfg, {"layer": i, "name": name, "request_of_layer": k, "got": hit,
                                                                      "visible_owner": with_ni})
            # ---- C15
            if not cfg["eff"][i - 1] or cfg["types"][i - 1] == "ECU-SHARED-DATA":
                continue
            lay = layers[i]
            eff_check(i, cfg["eff"][i - 1], "load")
            # accessors of communication parameters that no layer defines: "not used", never an exception; and whether CAN
            # is in use is whether a response-ID table is in effect for that protocol
            for proto_ in ("", "L1"):
                if proto_ and cfg["types"][0] != "PROTOCOL":
                    continue
                pa = proto_ or None
                cpx_eff = next((own_ for (n_, p_, (own_, _w)) in cfg["lookup"][i - 1] if n_ == "cpx" and p_ == proto_), 0)
                if proto_ == "":
                    have_ = [(kk, o) for (kk, o) in cfg["eff"][i - 1] if kk[0] == "cpx" and o != 0]
                    cpx_eff = -1 if len(have_) > 1 else (have_[0][1] if have_ else 0)
                try:
                    st["absent_accessors"] += 1
                    absent = {f: getattr(lay, f)(protocol=pa) for f in (
                        "get_can_func_req_id", "get_doip_logical_ecu_address", "get_doip_logical_gateway_address",
                        "get_doip_logical_tester_address", "get_doip_logical_functional_address",
                        "get_doip_routing_activation_timeout", "get_doip_routing_activation_type", "get_tester_present_time",
                        "get_can_fd_baudrate")}
                    wrong = {f: v_ for f, v_ in absent.items() if v_ is not None}
                    if wrong:
                        fail("C15", "absent_comparam_has_value", cfg, {"layer": i, "protocol": proto_, "got": {k_: repr(v_) for k_, v_ in wrong.items()}})
                    if lay.uses_can_fd(protocol=pa) is not False:
                        fail("C15", "absent_comparam_has_value", cfg, {"layer": i, "protocol": proto_, "got": {"uses_can_fd": True}})
                    if cpx_eff >= 0 and lay.uses_can(protocol=pa) != (cpx_eff != 0):
                        fail("C15", "uses_can", cfg, {"layer": i, "protocol": proto_, "expected": cpx_eff != 0})
                except Exception as e:  # noqa: BLE001
                    fail("C15", "accessor_raises", cfg, {"layer": i, "name": "absent comparam accessors", "protocol": proto_,
                                                         "exc": type(e).__name__, "msg": str(e)[:100], "omitted": False})
            two_of_a_name = any(kk[0] == "cp1b" and o != 0 for (kk, o) in cfg["eff"][i - 1])
            for (name, proto, (own, which)) in cfg["lookup"][i - 1]:
                if name == "cp1" and two_of_a_name:
                    continue           # which of two parameters of one short name a lookup by name returns is not prescribed
                if proto and (int(proto[1:]) > n or cfg["types"][int(proto[1:]) - 1] != "PROTOCOL"):
                    continue           # not a protocol of this configuration
                st["comparam_lookups"] += 1
                try:
                    cp = lay.get_comparam(CP_NAME[name], protocol=proto or None)
                    if proto:
                        # the protocol may be given as the layer object instead of its name
                        st["protocol_objects"] += 1
                        cp_o = lay.get_comparam(CP_NAME[name], protocol=db.protocols[proto])
                        if cp_o is not cp:
                            fail("C15", "lookup_by_protocol_object", cfg, {"layer": i, "name": name, "protocol": proto,
                                                                           "by_name": None if cp is None else [_cp_owner(cp), cp.protocol_snref or ""],
                                                                           "by_object": None if cp_o is None else [_cp_owner(cp_o), cp_o.protocol_snref or ""]})
                except Exception as e:  # noqa: BLE001
                    fail("C15", "get_comparam_raises", cfg, {"layer": i, "name": name, "protocol": proto, "exc": type(e).__name__})
                    continue
                if name == "cpx" and proto:
                    # no CP_CANFDTxMaxDataLength anywhere: 8 bytes if the layer talks CAN over that protocol, else no CAN at all
                    st["payload_sizes"] += 1
                    try:
                        got_sz = lay.get_max_can_payload_size(protocol=proto)
                        got_sz_o = lay.get_max_can_payload_size(protocol=db.protocols[proto])
                        want_sz = 8 if own != 0 else None
                        if got_sz != want_sz or got_sz_o != want_sz:
                            fail("C15", "accessor_payload_size", cfg, {"layer": i, "protocol": proto, "expected": want_sz,
                                                                       "got": [got_sz, got_sz_o]})
                    except Exception as e:  # noqa: BLE001
                        fail("C15", "accessor_raises", cfg, {"layer": i, "name": "max_can_payload_size", "protocol": proto,
                                                             "exc": type(e).__name__, "msg": str(e)[:100]})
                if proto == "":
                    # no protocol given = "don't care": prescribed only if exactly one definition of that name is in effect
                    have = [(kk, o) for (kk, o) in cfg["eff"][i - 1] if kk[0] == name and o != 0]
                    if len(have) > 1:
                        continue
                    own, which = (have[0][1], have[0][0][1]) if have else (0, "")
                if (own == 0) != (cp is None):
                    fail("C15", "lookup_presence", cfg, {"layer": i, "name": name, "protocol": proto, "expected_owner": own})
                    continue
                if cp is None:
                    continue
                if _cp_owner(cp) != own or (cp.protocol_snref or "") != which:
                    fail("C15", "lookup_most_specific", cfg, {"layer": i, "name": name, "protocol": proto, "expected": [own, which],
                                                              "got": [_cp_owner(cp), cp.protocol_snref or ""]})
                    continue
                # values, sub-values with default fallback, typed accessors
                st["accessor_calls"] += 1
                try:
                    if name == "cp1":
                        want = 500000 if own % 3 == 0 else 1000 * own + (1 if which else 0)
                        st["default_fallbacks"] += own % 3 == 0
                        if cp.get_value() != str(want):
                            fail("C15", "value", cfg, {"layer": i, "name": name, "expected": want, "got": cp.get_value()})
                        if lay.get_can_baudrate(protocol=proto or None) != want:
                            fail("C15", "accessor_baudrate", cfg, {"layer": i, "protocol": proto, "expected": want,
                                                                   "got": lay.get_can_baudrate(protocol=proto or None)})
                    else:
                        want1 = 100 + own + (50 if which else 0)
                        want2 = 2024 if own % 2 else 200 + own     # default of the specification if left out
                        st["default_fallbacks"] += own % 2
                        got1, got2 = cp.get_subvalue("CP_CanPhysReqId"), cp.get_subvalue("CP_CanRespUSDTId")
                        if got1 != str(want1) or got2 != str(want2):
                            fail("C15", "subvalue", cfg, {"layer": i, "expected": [want1, want2], "got": [got1, got2],
                                                          "omitted": bool(own % 2)})
                        r1, r2 = lay.get_can_receive_id(protocol=proto or None), lay.get_can_send_id(protocol=proto or None)
                        if r1 != want1 or r2 != want2:
                            fail("C15", "accessor_can_ids", cfg, {"layer": i, "protocol": proto, "expected": [want1, want2],
                                                                  "got": [r1, r2], "omitted": bool(own % 2)})
                except Exception as e:  # noqa: BLE001
                    fail("C15", "accessor_raises", cfg, {"layer": i, "name": name, "protocol": proto, "exc": type(e).__name__,
                                                         "msg": str(e)[:100], "omitted": bool(own % 2)})
        # ---- resolving everything a second time leaves every view (and the effective communication parameters) as they were
        before_cp = {i: sorted((CP_KEY(cp), cp.protocol_snref or "", _cp_owner(cp)) for cp in getattr(layers[i], "comparam_refs", []))
                     for i in range(1, n + 1) if cfg["types"][i - 1] != "ECU-SHARED-DATA"}
        try:
            db.refresh()
        except Exception as e:  # noqa: BLE001
            fail("*", "refresh_raises", cfg, {"exc": type(e).__name__, "msg": str(e)[:200]})
            continue
        st["refreshes"] += 1
        layers = {i: db.diag_layers[f"L{i}"] for i in range(1, n + 1)}
        for i in range(1, n + 1):
            views(i, "refresh")
            if i in before_cp:
                after = sorted((CP_KEY(cp), cp.protocol_snref or "", _cp_owner(cp)) for cp in layers[i].comparam_refs)
                if after != before_cp[i]:
                    fail("C15", "effective_set", cfg, {"layer": i, "phase": "refresh", "before": before_cp[i], "after": after,
                                                       "key": ["", ""], "expected_owner": -1, "present": True})
        # ---- the communication parameters of one layer are taken away and everything is resolved again: every layer has the
        # parameters of the hierarchy as it is now (the configuration of the family that lacks them)
        ed = cfg.get("edit")
        if ed:
            raw = layers[ed["layer"]].diag_layer_raw
            del raw.comparam_refs[:]
            try:
                db.refresh()
            except Exception as e:  # noqa: BLE001
                fail("*", "refresh_raises", cfg, {"exc": type(e).__name__, "msg": str(e)[:200], "phase": "edit"})
                continue
            st["edits"] += 1
            layers = {i: db.diag_layers[f"L{i}"] for i in range(1, n + 1)}
            for i in range(1, n + 1):
                if ed["eff"][i - 1] and cfg["types"][i - 1] != "ECU-SHARED-DATA":
                    eff_check(i, ed["eff"][i - 1], f"comparams of layer {ed['layer']} removed")
    return {"fails": fails, "stats": st}


# ---------------------------------------------------------------------------------------
# the typed accessors on parameters that are present (chain PROTOCOL <- BASE-VARIANT <- ECU-VARIANT)

TYPED = [  # (comparam, accessor, conversion of the numeric content, default of the specification)
    ("CP_CanFuncReqId", "get_can_func_req_id", int, "2015"),
    ("CP_DoIPLogicalGatewayAddress", "get_doip_logical_gateway_address", int, "4096"),
    ("CP_DoIPLogicalTesterAddress", "get_doip_logical_tester_address", int, "3584"),
    ("CP_DoIPLogicalFunctionalAddress", "get_doip_logical_functional_address", int, "58368"),
    ("CP_DoIPRoutingActivationTimeout", "get_doip_routing_activation_timeout", lambda x: float(x) / 1e6, "2000000"),
    ("CP_DoIPRoutingActivationType", "get_doip_routing_activation_type", int, "0"),
    ("CP_TesterPresentTime", "get_tester_present_time", lambda x: float(x) / 1e6, "3000000"),
    ("CP_CANFDBaudrate", "get_can_fd_baudrate", int, "2000000"),
    ("CP_Baudrate", "get_can_baudrate", int, "500000"),
]


def typed_accessor_docs() -> Tuple[List[str], Dict[int, Dict[str, str]]]:
    """-> documents, and per layer the value in effect for every parameter ("" = left out: the default applies)"""
    def cp(oid: str, name: str, default: str) -> str:
        return og.tag("COMPARAM", og.sn(name) + f"<PHYSICAL-DEFAULT-VALUE>{default}</PHYSICAL-DEFAULT-VALUE>" +
                      og.ref("DATA-OBJECT-PROP-REF", "CST.DOP"),
                      **{"ID": oid, "PARAM-CLASS": "COM", "CPTYPE": "STANDARD", "CPUSAGE": "ECU-COMM"})
    cx = og.tag("COMPLEX-COMPARAM", og.sn("CP_UniqueRespIdTable") + cp("CST.s1", "CP_CanPhysReqId", "2016") +
                cp("CST.s2", "CP_CanRespUSDTId", "2024") + cp("CST.s3", "CP_DoIPLogicalEcuAddress", "77"),
                **{"ID": "CST.cpx", "PARAM-CLASS": "UNIQUE_ID", "CPTYPE": "STANDARD", "CPUSAGE": "ECU-COMM"})
    simple = "".join(cp(f"CST.{n}", n, d) for (n, _a, _c, d) in TYPED) + cp("CST.CP_CANFDTxMaxDataLength", "CP_CANFDTxMaxDataLength", "TX_DL=8")
    subset = og.comparam_subset_doc("CST", "CST", og.tag("COMPARAMS", simple) + og.tag("COMPLEX-COMPARAMS", cx) +
                                    og.tag("DATA-OBJECT-PROPS", og.dop("CST.DOP", "u32", og.dct_standard("A_UINT32", 32))))

    def ref(name: str, value: str) -> str:
        return og.tag("COMPARAM-REF", f"<SIMPLE-VALUE>{value}</SIMPLE-VALUE>", **{"ID-REF": f"CST.{name}", "DOCREF": "CST", "DOCTYPE": "COMPARAM-SUBSET"})
    eff: Dict[int, Dict[str, str]] = {1: {}, 2: {}, 3: {}}
    l1 = og.Layer("PROTOCOL", "L1.id", "L1")
    l1.comparam_spec_ref = og.ref("COMPARAM-SPEC-REF", "CS", "CS", "COMPARAM-SPEC")
    l2 = og.Layer("BASE-VARIANT", "L2.id", "L2")
    l3 = og.Layer("ECU-VARIANT", "L3.id", "L3")
    for k, (n, _a, _c, _d) in enumerate(TYPED):
        v1 = str(1000 + 7 * k)
        l1.comparam_refs.append(ref(n, v1))
        eff[1][n] = eff[2][n] = eff[3][n] = v1
        if k % 2 == 0:
            v2 = "" if k == 4 else str(20000 + 13 * k)       # one override leaves the value out
            l2.comparam_refs.append(ref(n, v2))
            eff[2][n] = eff[3][n] = v2
        if k % 3 == 0:
            v3 = str(300000 + k)
            l3.comparam_refs.append(ref(n, v3))
            eff[3][n] = v3
    l1.comparam_refs.append(ref("CP_CANFDTxMaxDataLength", "CANFD TX_DL=32"))
    l2.comparam_refs.append(ref("CP_CANFDTxMaxDataLength", "TX_DL = 16"))
    for (lay, a, b, c) in ((l1, 101, 201, 31), (l3, 103, 203, 33)):
        lay.comparam_refs.append(og.tag("COMPARAM-REF", og.tag("COMPLEX-VALUE", f"<SIMPLE-VALUE>{a}</SIMPLE-VALUE><SIMPLE-VALUE>{b}</SIMPLE-VALUE>"
                                                                  f"<SIMPLE-VALUE>{c}</SIMPLE-VALUE>"),
                                        **{"ID-REF": "CST.cpx", "DOCREF": "CST", "DOCTYPE": "COMPARAM-SUBSET"}))
    l2.parent_refs.append(og.parent_ref("L1.id", "PROTOCOL", "DLC"))
    l3.parent_refs.append(og.parent_ref("L2.id", "BASE-VARIANT", "DLC"))
    return [CS_DOC, subset, og.container("DLC", "DLC", [l1, l2, l3])], eff


def typed_accessor_scenario() -> Tuple[List[Tuple[str, Dict[str, Any]]], int]:
    """every typed accessor on a present parameter returns exactly its numeric content (the closest definition's, or the
    default of the specification where the value is left out)"""
    fails: List[Tuple[str, Dict[str, Any]]] = []
    n = 0
    docs, eff = typed_accessor_docs()
    base = {"machine": "Layers", "types": ["PROTOCOL", "BASE-VARIANT", "ECU-VARIANT"], "parents": [[], [1], [2]], "defs": [[], [], []],
            "ni": [[], [], []], "cps": "typed accessor scenario", "rev": False}
    try:
        db = og.load(docs)
    except Exception as e:  # noqa: BLE001
        return [("spurious_load_error", {**base, "exc": type(e).__name__, "msg": str(e)[:200]})], 0
    defaults = {nm: d for (nm, _a, _c, d) in TYPED}
    fd = {1: True, 2: False, 3: False}                       # CANFD named in the frame length parameter in effect
    size = {1: 32, 2: 16, 3: 16}
    ids = {1: (101, 201, 31), 2: (101, 201, 31), 3: (103, 203, 33)}
    for i in (1, 2, 3):
        lay = db.diag_layers[f"L{i}"]
        for proto in (None, "L1"):
            want: Dict[str, Any] = {}
            for (nm, acc, conv, _d) in TYPED:
                raw = eff[i][nm] or defaults[nm]
                want[acc] = conv(raw)
            if not fd[i]:
                want["get_can_fd_baudrate"] = None
            want.update({"get_max_can_payload_size": size[i], "uses_can": True, "uses_can_fd": fd[i], "get_can_receive_id": ids[i][0],
                         "get_can_send_id": ids[i][1], "get_doip_logical_ecu_address": ids[i][2]})
            for acc, w in want.items():
                n += 1
                try:
                    got = getattr(lay, acc)(protocol=proto)
                except Exception as e:  # noqa: BLE001
                    fails.append(("accessor_raises", {**base, "layer": i, "name": acc, "protocol": proto or "", "exc": type(e).__name__,
                                                      "msg": str(e)[:100], "omitted": False}))
                    continue
                if got != w or type(got) is not type(w):
                    fails.append(("accessor_value", {**base, "layer": i, "accessor": acc, "protocol": proto or "", "expected": w, "got": repr(got)}))
    return fails, n


def CP_KEY(cp: Any) -> str:
    return {v_: k_ for k_, v_ in CP_ID.items()}[cp.spec_ref.ref_id]


def _cp_owner(cp: Any) -> int:
    v = cp.value
    if isinstance(v, str):
        if v == "":
            import re
            return int(re.search(r"owner (\d+)", str(cp.description.text if cp.description else "")).group(1))   # type: ignore[union-attr]
        return int(v) // 1000
    return (int(v[1]) - 100) % 50


def check(prop: str, tier: str, replay: Optional[str]) -> int:
    from .common import REPO, Verdicts, import_repo
    import_repo()
    v = Verdicts(prop, tier)
    cfgs: List[Dict[str, Any]] = []
    states = trans = 0
    design: Dict[str, Any] = {}
    if replay and json.loads(open(replay).read()).get("cps") == "typed accessor scenario":
        tf, tn = typed_accessor_scenario()
        for (clause, c) in tf:
            v.fail(clause, c)
        return v.finish({"states": 1, "transitions": 1, "traces_validated_against_impl": 1, "evaluations": tn, "samples": []},
                        ["replay of the typed accessor scenario"])
    if replay:
        case = json.loads(open(replay).read())
        want = (case["types"], case["parents"], case["defs"], case["ni"], case["cps"])
    for (name, types, names, cpkeys, rev) in templates(tier):
        if (prop == "C15") != bool(cpkeys):
            continue
        if replay and (types != want[0] or rev != bool(case.get("rev", False))):
            continue
        res, recs = run_model(name, types, names, cpkeys, rev)
        print(f"[{prop}] TLC {name}: {res.distinct} states, {len(recs)} configurations, {res.wall_s:.1f}s", flush=True)
        design[name] = {"distinct": res.distinct, "configurations": len(recs), "tlc_s": round(res.wall_s, 1), "types": types}
        states += res.distinct
        trans += res.generated
        if prop == "C15":
            # the configuration of the same family in which one layer (one with children, if any) has no parameters of its own
            index = {json.dumps([r["types"], r["parents"], r["defs"], r["ni"], r["cps"]]): r for r in recs}
            for r in recs:
                ks = [k for k in range(1, len(r["types"]) + 1) if r["cps"][k - 1] and r["types"][k - 1] != "ECU-SHARED-DATA"]
                with_children = [k for k in ks if any(k in [int(p) for p in ps] for ps in r["parents"])]
                for k in (with_children or ks)[:1]:
                    cps2 = [([] if j == k - 1 else c) for j, c in enumerate(r["cps"])]
                    sib = index.get(json.dumps([r["types"], r["parents"], r["defs"], r["ni"], cps2]))
                    if sib is not None:
                        r["edit"] = {"layer": k, "eff": sib["eff"]}
        if replay:
            recs = [r for r in recs if (r["types"], r["parents"], r["defs"], r["ni"], r["cps"]) == want]
        cfgs += recs
    if not cfgs:
        raise tlc.MachineryError("no configurations")
    n = min(16, max(1, len(cfgs) // 20))
    size = (len(cfgs) + n - 1) // n
    chunks = [cfgs[i:i + size] for i in range(0, len(cfgs), size)]
    with mp.get_context("spawn").Pool(len(chunks), initializer=_init, initargs=(str(REPO),)) as pool:
        outs = pool.map(process, chunks)
    stats: Dict[str, int] = {}
    if prop == "C15" and not replay:
        tf, tn = typed_accessor_scenario()
        for (clause, c) in tf:
            v.fail(clause, c)
        stats["typed_accessor_calls"] = tn
    for o in outs:
        for (p, clause, c) in o["fails"]:
            if p in (prop, "*"):      # a valid configuration that does not load fails whichever property is being checked
                v.fail(clause, c)
        for k, x in o["stats"].items():
            stats[k] = stats.get(k, 0) + x
    print(f"[{prop}] replay: {stats}", flush=True)
    if not replay:
        if prop == "C09" and (stats["clash_configs"] == 0 or stats["excluded"] == 0 or stats["overridden"] == 0):
            v.vacuous(f"vacuity: {stats}")
        if prop == "C15" and (stats["comparam_lookups"] == 0 or stats["default_fallbacks"] == 0):
            v.vacuous(f"vacuity: {stats}")
    cov = {"states": states, "transitions": trans, "traces_validated_against_impl": stats["configs"],
           "evaluations": stats["views"] * 9 + stats["decodes"] + stats["comparam_lookups"] + stats["accessor_calls"],
           "distinct_nontrivial": stats["configs"],
           "rule": "TLC builds every hierarchy over each type template (parents among the admissible earlier layers, local "
                   "definitions, NOT-INHERITED subsets per parent" + (", local communication parameters" if prop == "C15" else "") +
                   "); each configuration is emitted as ODX XML, loaded, and every layer's view compared; distinct = configurations",
           "exhaustive": True, "design": design, "replay": stats,
           "samples": [{k: cfgs[len(cfgs) // 2][k] for k in ("types", "parents", "defs", "ni", "cps", "clash")}]}
    return v.finish(cov, ["TLC and the CommunityModules", "my reading of MCD-2 D 7.3.2.4 in Layers.tla (View)",
                          "the ODX emitter and the library's loader; objects are told apart by a LONG-NAME tag name@Lk"])
