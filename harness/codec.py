"""Codec engine shared by C01, C02, C03, C05, C08 (and C04/C17 families).

spec/Codec.tla (with CodecCore/Bits) is the reference interpreter.  TLC enumerates the description families of
MC_Codec.tla and emits, per description, every value assignment with the reference PDU, overlap flag, decoded values
and the decode verdict of every proper prefix.  Here every description is turned into ODX XML (own emitter), loaded
through the library, and each case is executed on the real Request / Response objects.
"""
from __future__ import annotations

import json

import struct
import warnings
from typing import Any, Dict, List, Optional, Tuple

from . import odxgen as og
from . import tlc

BASE = {"uint": "A_UINT32", "int": "A_INT32", "f32": "A_FLOAT32", "f64": "A_FLOAT64", "bytes": "A_BYTEFIELD",
        "ascii": "A_ASCIISTRING", "utf8": "A_UTF8STRING", "ucs2": "A_UNICODE2STRING"}


class _NoneValue:
    """explicit None cannot be told from an omitted parameter, so C04 uses a foreign object instead"""

    def __repr__(self) -> str:
        return "<object()>"


BAD: Dict[str, Any] = {"str": "12", "float": 1.5, "bytes": b"\x01", "none": _NoneValue(), "list": [1], "dict": {"x": 1}}


class _Merged:
    """counts of several TLC runs over disjoint families"""

    def __init__(self) -> None:
        self.distinct = self.generated = 0
        self.wall_s = 0.0
        self.ok = True


def run_model(tier: str, variant: str = "") -> Tuple[Any, List[Dict[str, Any]]]:
    cfgs = [f"MC_Codec_{variant}{tier}.cfg"]
    if tier == "thorough" and not variant:
        cfgs.append("MC_Codec_thorough3.cfg")       # compositions of three shapes: a run of their own (memory)
    merged = _Merged()
    recs: List[Dict[str, Any]] = []
    for cfg in cfgs:
        res = tlc.run("MC_Codec.tla", cfg, timeout=6000, heap="12g")
        if not res.ok or res.distinct == 0:
            raise tlc.MachineryError(f"TLC failed on Codec ({cfg}): {res.violated} {res.errors[:3]}\n{res.stdout[-3000:]}")
        part = list(res.json_lines())
        if 2 * len(part) + 1 != res.distinct:
            raise tlc.MachineryError(f"{len(part)} description records for {res.distinct} states ({cfg})")
        recs += part
        merged.distinct += res.distinct
        merged.generated += res.generated
        merged.wall_s += res.wall_s
    return merged, recs


# ---------------------------------------------------------------------------------------
# description -> XML

class Emitter:
    def __init__(self) -> None:
        self.layer = og.Layer("BASE-VARIANT", "BV", "BV")
        self.n = 0

    def uid(self, kind: str) -> Tuple[str, str]:
        self.n += 1
        return f"{kind}.{self.n}", f"{kind}_{self.n}"

    def dct(self, d: Dict[str, Any], key_ids: Dict[str, str]) -> str:
        base = BASE[d["base"]]
        enc = None if d["enc"] in ("NONE", "DEFAULT") else d["enc"]
        if d["k"] == "std":
            return og.dct_standard(base, d["bits"], enc=enc, hilo=d["hilo"], mask=d.get("mask"))
        if d["k"] == "minmax":
            return og.dct_minmax(base, d["min"], None if d["max"] < 0 else d["max"], d["term"], enc=enc, hilo=d["hilo"])
        if d["k"] == "leading":
            return og.dct_leading(base, d["bits"], enc=enc, hilo=d["hilo"])
        if d["k"] == "paramlen":
            return og.dct_paramlen(base, key_ids[d["key"]], enc=enc, hilo=d["hilo"])
        raise tlc.MachineryError(f"dct {d['k']}")

    def dop(self, d: Dict[str, Any], key_ids: Dict[str, str]) -> str:
        """Registers the data object (and everything below it) in the layer; returns its id."""
        k = d["k"]
        if k == "simple":
            oid, name = self.uid("DOP")
            ptype = BASE[d["dct"]["base"]]
            self.layer.dops.append(og.dop(oid, name, self.dct(d["dct"], key_ids), ptype=ptype))
            return oid
        if k == "envdesc":
            oid, name = self.uid("EDD")
            ids = []
            if d["hasall"]:
                eid, ename = self.uid("ENV")
                self.layer.env_datas.append(og.env_data(eid, ename, self.params(d["all"], f"{eid}.")))
                ids.append(eid)
            for per in d["per"]:
                eid, ename = self.uid("ENV")
                self.layer.env_datas.append(og.env_data(eid, ename, self.params(per["ps"], f"{eid}."), sorted(per["codes"])))
                ids.append(eid)
            self.layer.env_data_descs.append(og.env_data_desc(oid, name, d["ref"], ids))
            return oid
        if k == "dtc":
            oid, name = self.uid("DTC")
            codes = list(d["codes"])
            own, inherited = (codes[:-1], codes[-1:]) if len(codes) > 1 else (codes, [])
            linked = []
            if inherited:
                # the last code is inherited from a linked DTC-DOP, which also defines one that is explicitly not inherited
                lid, lname = self.uid("DTC")
                hidden = max(codes) - 1 if max(codes) - 1 not in codes and max(codes) > 1 else max(codes) + 1
                self.layer.dtc_dops.append(og.dtc_dop(lid, lname, self.dct(d["dct"], key_ids),
                                                      [(f"{lid}.{c}", f"P{c:06X}", c, f"fault {c}") for c in inherited + [hidden]]))
                linked = [(lid, [f"P{hidden:06X}"])]
                # ... and a second linked DTC-DOP provides the same trouble code by reference (it is still one trouble code)
                lid2, lname2 = self.uid("DTC")
                self.layer.dtc_dops.append(og.dtc_dop(lid2, lname2, self.dct(d["dct"], key_ids), [],
                                                      dtc_refs=[f"{lid}.{c}" for c in inherited]))
                linked.append((lid2, []))
            self.layer.dtc_dops.append(og.dtc_dop(oid, name, self.dct(d["dct"], key_ids),
                                                  [(f"{oid}.{c}", f"P{c:06X}", c, f"fault {c}") for c in own], linked=linked))
            return oid
        if k == "struct":
            oid, name = self.uid("ST")
            params = self.params(d["ps"], f"{oid}.")
            self.layer.structures.append(og.structure(oid, name, params, bytesize=None if d["bs"] < 0 else d["bs"]))
            return oid
        if k == "mux":
            oid, name = self.uid("MUX")
            kid, kname = self.uid("DOP")
            self.layer.dops.append(og.dop(kid, kname, self.dct(d["kdct"], key_ids), ptype=BASE[d["kdct"]["base"]]))
            cases = [(c["n"], c["lo"], c["hi"], self.dop(c["st"], key_ids) if c["st"]["k"] != "none" else None) for c in d["cases"]]
            dflt = None
            if d["hasdflt"]:
                dflt = (d["dflt"]["n"], self.dop(d["dflt"]["st"], key_ids) if d["dflt"]["st"]["k"] != "none" else None)
            self.layer.muxs.append(og.mux(oid, name, d["bp"], d["kbp"], kid, cases, default=dflt,
                                          key_bitpos=d["kbit"] if d["kbit"] else None))
            return oid
        sid = self.dop(d["st"], key_ids)
        if k == "sfield":
            oid, name = self.uid("SF")
            self.layer.static_fields.append(og.static_field(oid, name, sid, d["cnt"], d["isz"]))
        elif k == "dlfield":
            oid, name = self.uid("DLF")
            cid, cname = self.uid("DOP")
            self.layer.dops.append(og.dop(cid, cname, self.dct(d["cdct"], key_ids), ptype=BASE[d["cdct"]["base"]]))
            self.layer.dl_fields.append(og.dynamic_length_field(oid, name, sid, d["off"], d["cbp"], cid,
                                                                count_bitpos=d["cbit"] if d["cbit"] else None))
        elif k == "eopfield":
            oid, name = self.uid("EOP")
            self.layer.eopdu_fields.append(og.end_of_pdu_field(oid, name, sid))
        elif k == "demfield":
            oid, name = self.uid("DEM")
            tid, tname = self.uid("DOP")
            # the end marker's data object converts only the values around the marker: probing an item whose first byte it
            # cannot convert fails after the bytes were read (the field must go on from where the probe started)
            compu = og.IDENTICAL
            if d["tdct"]["base"] == "uint" and d["tv"]["t"] == "int" and int(d["tv"]["v"]) >= 16:
                tv = int(d["tv"]["v"])
                compu = og.compu_method("LINEAR", [og.compu_scale(lower=og.limit("LOWER-LIMIT", tv - 15, "CLOSED"),
                                                                  upper=og.limit("UPPER-LIMIT", tv, "CLOSED"), num=[0, 1])])
            self.layer.dops.append(og.dop(tid, tname, self.dct(d["tdct"], key_ids), ptype=BASE[d["tdct"]["base"]], compu=compu))
            self.layer.dem_fields.append(og.dynamic_endmarker_field(oid, name, sid, tid, d["tv"]["v"]))
        else:
            raise tlc.MachineryError(f"dop {k}")
        return oid

    def table(self, d: Dict[str, Any], key_ids: Dict[str, str]) -> str:
        """a TABLE with its key DOP and the objects of its rows; one per use (key and struct parameter share it by identity)"""
        memo = getattr(self, "_tables", None)
        if memo is None:
            memo = self._tables = {}
        key = json.dumps(d, sort_keys=True)
        if key in memo:
            return memo[key]
        oid, name = self.uid("TAB")
        kid, kname = self.uid("DOP")
        self.layer.dops.append(og.dop(kid, kname, self.dct(d["kdct"], key_ids), ptype=BASE[d["kdct"]["base"]]))
        rows = []
        for r in d["rows"]:
            sid = did = None
            if r["st"]["k"] == "struct":
                sid = self.dop(r["st"], key_ids)
            elif r["st"]["k"] != "none":
                did = self.dop(r["st"], key_ids)
            rows.append((f"{oid}.{r['n']}", r["n"], r["key"], sid, did))
        self.layer.tables.append(og.table(oid, name, kid, rows))
        memo[key] = oid
        return oid

    def params(self, ps: List[Dict[str, Any]], prefix: str) -> List[str]:
        key_ids = {p["n"]: f"{prefix}K.{p['n']}" for p in ps if p["k"] in ("LENGTH-KEY", "TABLE-KEY")}
        self._tables = {}           # tables are shared within one parameter list only
        out = []
        for p in ps:
            bp = None if p["bp"] < 0 else p["bp"]
            bi = None if p["bi"] < 0 else p["bi"]
            k = p["k"]
            if k == "VALUE":
                dv = None if p["dv"]["t"] == "missing" else p["dv"]["v"]
                out.append(og.p_value(p["n"], self.dop(p["dop"], key_ids), default=dv, bytepos=bp, bitpos=bi))
            elif k == "CODED-CONST":
                out.append(og.p_const(p["n"], p["cv"]["v"], self.dct(p["dct"], key_ids), bytepos=bp, bitpos=bi))
            elif k == "PHYS-CONST":
                out.append(og.p_physconst(p["n"], p["cv"]["v"], self.dop(p["dop"], key_ids), bytepos=bp, bitpos=bi))
            elif k == "RESERVED":
                out.append(og.p_reserved(p["n"], p["bits"], bytepos=bp, bitpos=bi))
            elif k == "MATCHING-REQUEST-PARAM":
                out.append(og.p_matching(p["n"], p["rq"], p["len"], bytepos=bp))
            elif k == "NRC-CONST":
                out.append(og.p_nrc(p["n"], [v["v"] for v in p["cvs"]], self.dct(p["dct"], key_ids), bytepos=bp, bitpos=bi))
            elif k == "SYSTEM":
                out.append(og.p_system(p["n"], p["sys"], self.dop(p["dop"], key_ids), bytepos=bp, bitpos=bi))
            elif k == "LENGTH-KEY":
                out.append(og.p_lengthkey(p["n"], key_ids[p["n"]], self.dop(p["dop"], key_ids), bytepos=bp, bitpos=bi))
            elif k == "TABLE-KEY":
                if p["cv"]["t"] == "str":       # the row is selected statically
                    out.append(og.p_tablekey(p["n"], key_ids[p["n"]], row_ref=f"{self.table(p['dop'], key_ids)}.{p['cv']['s']}"))
                else:
                    out.append(og.p_tablekey(p["n"], key_ids[p["n"]], table_ref=self.table(p["dop"], key_ids), bytepos=bp, bitpos=bi))
            elif k == "TABLE-STRUCT":
                self.table(p["dop"], key_ids)
                out.append(og.p_tablestruct(p["n"], key_ref=key_ids[p["sys"]], bytepos=bp, bitpos=bi))
            else:
                raise tlc.MachineryError(f"param kind {k}")
        return out

    def message(self, n: int, ps: List[Dict[str, Any]]) -> None:
        params = self.params(ps, f"M{n}.")
        self.layer.requests.append(og.request(f"RQ.{n}", f"RQ_{n}", params))
        self.layer.pos_responses.append(og.response("POS-RESPONSE", f"PR.{n}", f"PR_{n}", params))


def build(recs: List[Dict[str, Any]]) -> Tuple[List[Any], List[Any]]:
    """All descriptions in one layer: returns (requests, responses) in order.  If the library cannot load them, they are
    loaded one by one and the culprits are returned as (LoadFailure, LoadFailure)."""
    try:
        return _build(recs)
    except Exception:  # noqa: BLE001
        if len(recs) == 1:
            raise
    rqs: List[Any] = []
    prs: List[Any] = []
    for r in recs:
        try:
            a_, b_ = _build([r])
            rqs.append(a_[0])
            prs.append(b_[0])
        except Exception as e:  # noqa: BLE001
            lf = LoadFailure(f"{type(e).__name__}: {str(e)[:120]}")
            rqs.append(lf)
            prs.append(lf)
    return rqs, prs


class LoadFailure:
    def __init__(self, exc: str) -> None:
        self.exc = exc


def _build(recs: List[Dict[str, Any]]) -> Tuple[List[Any], List[Any]]:
    em = Emitter()
    for n, r in enumerate(recs):
        em.message(n, r["ps"])
    db = og.load([og.container("DLC", "DLC", [em.layer])])
    bv = db.base_variants[0].diag_layer_raw
    return [bv.requests[f"RQ_{n}"] for n in range(len(recs))], [bv.positive_responses[f"PR_{n}"] for n in range(len(recs))]


# ---------------------------------------------------------------------------------------
# values: spec <-> python

def bits_int(bits: List[int], base: str, enc: str) -> int:
    n = len(bits)
    u = int("".join(map(str, bits)), 2) if bits else 0
    if base == "uint":
        if enc == "BCD-P":
            return int("".join(str((u >> s) & 0xF) for s in range(((n + 3) // 4 - 1) * 4, -1, -4)) or "0")
        if enc == "BCD-UP":
            return int("".join(str((u >> s) & 0xF) for s in range(((n + 7) // 8 - 1) * 8, -1, -8)) or "0")
        return u
    if n == 0 or bits[0] == 0:
        return u
    if enc in ("2C", "DEFAULT"):
        return u - (1 << n)
    if enc == "1C":
        return -((1 << n) - 1 - u)
    return -(u - (1 << (n - 1)))


def tok_int(name: str, n: int) -> int:
    return {"MAXU": (1 << n) - 1, "MAXS": (1 << (n - 1)) - 1, "MINS": -(1 << (n - 1)), "MINS1": -((1 << (n - 1)) - 1),
            "OVERU": 1 << n, "OVERS": 1 << (n - 1), "UNDERS": -(1 << (n - 1)) - 1}[name]


def atom_py(v: Dict[str, Any], dct: Optional[Dict[str, Any]]) -> Any:
    t = v["t"]
    if t == "int":
        return int(v["v"])
    if t == "tok":
        n = dct["bits"] if dct and dct["k"] == "std" else (dct["nbits"] if dct else 8)
        return tok_int(v["name"], n)
    if t == "wide":
        return bits_int(list(v["b"]), dct["base"] if dct else "uint", dct["enc"] if dct else "NONE")
    if t == "bytes":
        return bytes(v["v"])
    if t == "text":
        return "".join(chr(c) for c in v["v"])
    if t == "float":
        b = bytes(v["v"])
        return struct.unpack(">f" if len(b) == 4 else ">d", b)[0]
    if t == "str":
        return v["s"]
    if t == "missing":
        return None
    if t == "bad":
        return BAD[v["name"]]
    raise tlc.MachineryError(f"value tag {t}")


def dop_py(d: Dict[str, Any], v: Dict[str, Any]) -> Any:
    if v["t"] == "missing":
        return None
    if v["t"] == "bad":
        return BAD[v["name"]]
    k = d.get("k")
    if k == "envdesc":
        allps = list(d["all"]) + [p for per in d["per"] for p in per["ps"]]
        return dict_py(allps, v) if v["t"] == "dict" else atom_py(v, None)
    if k == "dtc":
        return atom_py(v, d["dct"])
    if k == "simple":
        return atom_py(v, d["dct"])
    if k == "struct":
        return dict_py(d["ps"], v)
    if k == "mux":
        cs = list(d["cases"]) + ([d["dflt"]] if d["hasdflt"] else [])
        c = next((x for x in cs if x["n"] == v["a"]), None)
        if c is None or c["st"]["k"] == "none":
            return (v["a"], {})
        return (v["a"], dop_py(c["st"], v["b"]))
    if v["t"] == "list":
        return [dop_py(d["st"], x) for x in v["v"]]
    return atom_py(v, None)


def dict_py(ps: List[Dict[str, Any]], v: Dict[str, Any]) -> Dict[str, Any]:
    byname = {p["n"]: p for p in ps}
    out: Dict[str, Any] = {}
    for (name, val) in v["v"]:
        if name not in byname:
            out[name] = atom_py(val, None)      # a parameter the description does not know
            continue
        p = byname[name]
        if val["t"] == "missing":
            out[name] = None
        elif p["k"] in ("VALUE", "PHYS-CONST", "SYSTEM", "LENGTH-KEY"):
            out[name] = dop_py(p["dop"], val)
        elif p["k"] == "TABLE-STRUCT" and val["t"] == "pair":
            row = next((r for r in p["dop"]["rows"] if r["n"] == val["a"]), None)
            out[name] = (val["a"], dop_py(row["st"], val["b"]) if row is not None and row["st"]["k"] != "none" else atom_py(val["b"], None))
        elif p["k"] in ("CODED-CONST", "NRC-CONST"):
            out[name] = atom_py(val, p["dct"])
        else:
            out[name] = atom_py(val, None)
    return out


def same(a: Any, b: Any) -> bool:
    """Equality of decoded values; floats by bit pattern (NaN-safe), bytes-like by content."""
    if hasattr(a, "trouble_code"):
        a = a.trouble_code            # a DTC object stands for its trouble code
    if hasattr(b, "trouble_code"):
        b = b.trouble_code
    if isinstance(a, (bytes, bytearray)) and isinstance(b, (bytes, bytearray)):
        return bytes(a) == bytes(b)
    if isinstance(a, float) and isinstance(b, float):
        return struct.pack(">d", a) == struct.pack(">d", b)
    if isinstance(a, dict) and isinstance(b, dict):
        return a.keys() == b.keys() and all(same(a[k], b[k]) for k in a)
    if isinstance(a, (list, tuple)) and isinstance(b, (list, tuple)):
        return len(a) == len(b) and all(same(x, y) for x, y in zip(a, b))
    if isinstance(a, bool) != isinstance(b, bool):
        return False
    return type(a) is type(b) and a == b


def agrees(expected: Any, got: Any) -> bool:
    """got agrees with expected wherever expected prescribes a value (None = nothing prescribed)."""
    if expected is None:
        return True
    if isinstance(expected, dict):
        return isinstance(got, dict) and all(k in got and agrees(v, got[k]) for k, v in expected.items())
    if isinstance(expected, list):
        return isinstance(got, (list, tuple)) and len(got) == len(expected) and all(agrees(x, y) for x, y in zip(expected, got))
    return same(expected, got)


# ---------------------------------------------------------------------------------------
# running the real code

class NonTermination(Exception):
    """The library call did not return within CALL_LIMIT_S seconds (calls normally take well under a millisecond)."""


CALL_LIMIT_S = 10.0


class time_limit:
    """Bound one call into the library; a pure-Python loop that never ends is interrupted by SIGALRM."""

    def __enter__(self) -> None:
        import signal
        import threading
        self.on = threading.current_thread() is threading.main_thread() and hasattr(signal, "setitimer")
        if self.on:
            def _raise(_sig: int, _frm: Any) -> None:
                raise NonTermination(f"no result after {CALL_LIMIT_S}s")
            self.old = signal.signal(signal.SIGALRM, _raise)
            signal.setitimer(signal.ITIMER_REAL, CALL_LIMIT_S)

    def __exit__(self, *a: Any) -> None:
        import signal
        if self.on:
            signal.setitimer(signal.ITIMER_REAL, 0)
            signal.signal(signal.SIGALRM, self.old)


def real_encode(obj: Any, vals: Dict[str, Any], rq: Optional[bytes]) -> Dict[str, Any]:
    """{pdu | exc, lib, overlap}"""
    from odxtools.exceptions import OdxError, OdxWarning
    out: Dict[str, Any] = {"pdu": None, "exc": "", "lib": False, "libcls": "", "overlap": False}
    with warnings.catch_warnings(record=True) as ws:
        warnings.simplefilter("always")
        try:
            with time_limit():
                pdu = obj.encode(coded_request=rq, **vals) if rq is not None else obj.encode(**vals)
            out["pdu"] = bytes(pdu)
        except Exception as e:  # noqa: BLE001
            out["exc"] = type(e).__name__
            out["lib"] = isinstance(e, OdxError)
            out["msg"] = str(e)[:160]
    out["overlap"] = any(issubclass(w.category, OdxWarning) and "verlap" in str(w.message) for w in ws)
    return out


def real_decode(obj: Any, pdu: bytes) -> Dict[str, Any]:
    from odxtools.decodestate import DecodeState
    from odxtools.exceptions import DecodeError, OdxError
    out: Dict[str, Any] = {"vals": None, "exc": "", "decode_error": False, "lib": False, "cursor": -1}
    with warnings.catch_warnings():
        warnings.simplefilter("ignore")
        try:
            ds = DecodeState(coded_message=bytes(pdu))
            with time_limit():
                out["vals"] = obj.decode_from_pdu(ds)
            out["cursor"] = ds.cursor_byte_position
        except Exception as e:  # noqa: BLE001
            out["exc"] = type(e).__name__
            out["decode_error"] = isinstance(e, DecodeError)
            out["lib"] = isinstance(e, OdxError)
            out["msg"] = str(e)[:160]
    return out


def shape(ps: List[Dict[str, Any]]) -> Dict[str, Any]:
    """Canonical features of a description (for known-finding matching and reports)."""
    kinds: List[str] = []
    dops: List[str] = []
    dcts: List[str] = []

    def walk_dop(d: Dict[str, Any]) -> None:
        k = d.get("k")
        if k in (None, "none"):
            return
        dops.append(k)
        if k in ("simple", "dtc"):
            c = d["dct"]
            dcts.append(f"{c['k']}:{c['base']}:{c['enc']}")
        elif k == "struct":
            if d["bs"] >= 0:
                dops.append("bytesize")
            walk(d["ps"])
        elif k == "mux":
            for c in d["cases"]:
                walk_dop(c["st"])
        elif k == "table":
            for r in d["rows"]:
                walk_dop(r["st"])
        elif k == "envdesc":
            walk(d["all"])
            for per in d["per"]:
                walk(per["ps"])
        else:
            walk_dop(d["st"])

    def walk(ps_: List[Dict[str, Any]]) -> None:
        for p in ps_:
            kinds.append(p["k"])
            if p["dop"].get("k") not in (None, "none"):
                walk_dop(p["dop"])
            if p["dct"].get("k") not in (None, "none"):
                dcts.append(f"{p['dct']['k']}:{p['dct']['base']}:{p['dct']['enc']}")

    walk(ps)
    first = ps[1] if len(ps) > 1 else ps[0]
    c = first["dop"]["dct"] if first["dop"].get("k") == "simple" else (first["dct"] if first["dct"].get("k") not in (None, "none") else None)
    return {"param_kinds": sorted(set(kinds)), "dop_kinds": sorted(set(dops)), "dcts": sorted(set(dcts)),
            "nparams": len(ps), "explicit_pos": any(p["bp"] >= 0 for p in ps[1:]),
            "bits": c["bits"] if c else -1, "hilo": c["hilo"] if c else True,
            "bitpos": first["bi"]}
