"""PDX round trip (C11): structural walk / diff of databases, single-attribute perturbations, load entry points."""
from __future__ import annotations

import dataclasses
import enum
import hashlib
import io
import os
import typing
import zipfile
from pathlib import Path
from typing import Any, Dict, Iterator, List, Optional, Tuple

METACHARS = "a<b&c>\"d'e"
DESCRIPTION_TEXT = "<p>x &amp; y &lt; z</p>"


# ---------------------------------------------------------------------------------------
# structure

def roots(db: Any) -> List[Tuple[str, Any]]:
    """the described content of a database, keyed independently of the order in which documents were added"""
    out = [(f"container[{c.short_name}]", c) for c in db.diag_layer_containers]
    out += [(f"comparam_subset[{c.short_name}]", c) for c in db.comparam_subsets]
    out += [(f"comparam_spec[{c.short_name}]", c) for c in db.comparam_specs]
    return sorted(out, key=lambda x: x[0])


def _is_dc(o: Any) -> bool:
    return dataclasses.is_dataclass(o) and not isinstance(o, type)


def canon(o: Any, _seen: Optional[set] = None) -> Any:  # type: ignore[type-arg]
    """dataclass fields only (resolved references live in non-field attributes), as plain nested data"""
    if _is_dc(o):
        return (type(o).__name__, tuple((f.name, canon(getattr(o, f.name))) for f in dataclasses.fields(o) if f.compare))
    if isinstance(o, (list, tuple)):
        return tuple(canon(x) for x in o)
    if isinstance(o, dict):
        return tuple(sorted((str(k), canon(v)) for k, v in o.items()))
    if isinstance(o, enum.Enum):
        return ("enum", type(o).__name__, o.name)
    if isinstance(o, float):
        return ("float", repr(o))
    if isinstance(o, (bytes, bytearray)):
        return ("bytes", bytes(o).hex())
    if o is None or isinstance(o, (str, int, bool)):
        return o
    return ("obj", type(o).__name__, repr(o)[:80])


def aux_contents(db: Any) -> Dict[str, bytes]:
    """the auxiliary files of a database by base name; read from the start, and the read position is left where it was
    (what a later write finds must not depend on having been looked at)"""
    out: Dict[str, bytes] = {}
    for k, f in db.auxiliary_files.items():
        try:
            pos = f.tell()
            f.seek(0)
            out[os.path.basename(str(k))] = f.read()
            f.seek(pos)
        except Exception as e:  # noqa: BLE001
            out[os.path.basename(str(k))] = f"<unreadable: {type(e).__name__}>".encode()
    return out


def digest(db: Any) -> str:
    return hashlib.sha1(repr([(k, canon(r)) for k, r in roots(db)] + sorted(aux_contents(db).items())).encode()).hexdigest()[:16]


def diff(a: Any, b: Any, path: str = "", out: Optional[List[Dict[str, Any]]] = None, limit: int = 40,
         owner: Tuple[str, str] = ("", "")) -> List[Dict[str, Any]]:
    """paths at which two structures differ; owner = (class, field) of the innermost dataclass field on the path"""
    if out is None:
        out = []
    if len(out) >= limit:
        return out

    def rec(kind: str, x: Any, y: Any) -> None:
        out.append({"path": path, "class": owner[0], "field": owner[1], "kind": kind, "a": repr(x)[:80], "b": repr(y)[:80]})  # type: ignore[union-attr]
    if _is_dc(a) and _is_dc(b):
        if type(a) is not type(b):
            rec("type", type(a).__name__, type(b).__name__)
            return out
        for f in dataclasses.fields(a):
            if f.compare:
                diff(getattr(a, f.name), getattr(b, f.name), f"{path}.{f.name}", out, limit, (type(a).__name__, f.name))
        return out
    if isinstance(a, (list, tuple)) and isinstance(b, (list, tuple)):
        if len(a) != len(b):
            rec("length", len(a), len(b))
            return out
        for i, (x, y) in enumerate(zip(a, b)):
            nm = getattr(x, "short_name", None)
            diff(x, y, f"{path}[{nm if isinstance(nm, str) else i}]", out, limit, owner)
        return out
    if isinstance(a, dict) and isinstance(b, dict):
        if sorted(map(str, a)) != sorted(map(str, b)):
            rec("keys", sorted(map(str, a)), sorted(map(str, b)))
            return out
        for k in a:
            diff(a[k], b[k], f"{path}{{{k}}}", out, limit, owner)
        return out
    if canon(a) != canon(b):
        rec("dropped" if b is None else ("invented" if a is None else "altered"), a, b)
    return out


def diff_db(a: Any, b: Any, limit: int = 40) -> List[Dict[str, Any]]:
    ra, rb = dict(roots(a)), dict(roots(b))
    out: List[Dict[str, Any]] = []
    if sorted(ra) != sorted(rb):
        out.append({"path": "", "class": "Database", "field": "documents", "kind": "keys", "a": sorted(ra), "b": sorted(rb)})
    for k in ra:
        if k in rb:
            diff(ra[k], rb[k], k, out, limit)
    xa, xb = aux_contents(a), aux_contents(b)
    diff(xa, xb, "auxiliary_files", out, limit, ("Database", "auxiliary_files"))
    return out


# ---------------------------------------------------------------------------------------
# single-attribute perturbations

SKIP_FIELDS = {"short_name", "odx_id", "ref_id", "ref_docs", "local_id", "doc_fragments"}


def _strip_optional(t: Any) -> Tuple[Any, bool]:
    if typing.get_origin(t) is typing.Union:
        args = [x for x in typing.get_args(t) if x is not type(None)]
        if len(args) == 1:
            return args[0], True
    return t, False


def _hints(cls: type) -> Dict[str, Any]:
    try:
        return typing.get_type_hints(cls)
    except Exception:  # noqa: BLE001
        return {}


def _is_number(s: str) -> bool:
    try:
        float(s)
        return True
    except ValueError:
        return False


def _other_number(s: str) -> str:
    try:
        return str(int(s) + 1)
    except ValueError:
        return repr(float(s) + 1.0 / 1024)


def new_value(cls: type, fname: str, old: Any, hint: Any) -> Tuple[bool, Any]:
    """a value different from old and from the default, for the simple attribute kinds"""
    t, _opt = _strip_optional(hint)
    if fname in SKIP_FIELDS or fname.endswith("_ref") or fname.endswith("_refs") or fname.endswith("_snref") or fname.endswith("_snrefs"):
        return False, None
    if (cls.__name__, fname) == ("EnvironmentData", "all_value"):
        return True, None if old else True          # ALL-VALUE is an empty element: present or absent
    if isinstance(old, bool) or t is bool:
        return True, (not old) if isinstance(old, bool) else True
    if isinstance(old, enum.Enum) or (isinstance(t, type) and issubclass(t, enum.Enum)):
        members = list(type(old)) if isinstance(old, enum.Enum) else list(t)
        others = [m for m in members if m is not old]
        return (True, others[0]) if others else (False, None)
    if isinstance(old, int) or t is int:
        return True, (old + 1) if isinstance(old, int) else 3
    if isinstance(old, float) or t is float:
        return True, (old + 1.0 / 1024) if isinstance(old, float) else 1234567.0009765625
    if fname.endswith("_snpathref"):
        return True, "x.y" if old != "x.y" else "x.z"      # a path of short names
    if isinstance(old, str) or t is str:
        if cls.__name__ == "Description" and fname == "text":
            return True, DESCRIPTION_TEXT
        if isinstance(old, str) and _is_number(old):
            return True, _other_number(old)          # a value the parser converts to a number: another number
        if old is None and fname.endswith("_raw"):
            return True, "7"
        return True, METACHARS if old != METACHARS else METACHARS + "x"
    return False, None


def sites(db: Any) -> Iterator[Tuple[str, Any, str, Any, Any]]:
    """(path, object, field name, old value, type hint) for the first instance of every (class, field) with a simple type, plus
    every instance-independent occurrence where the old value is not None (a second site per field: value present vs absent)"""
    seen_ids: set = set()  # type: ignore[type-arg]
    done: Dict[Tuple[str, str, bool], int] = {}

    def walk(o: Any, path: str) -> Iterator[Tuple[str, Any, str, Any, Any]]:
        if _is_dc(o):
            if id(o) in seen_ids:
                return
            seen_ids.add(id(o))
            hints = _hints(type(o))
            frozen = getattr(getattr(type(o), "__dataclass_params__", None), "frozen", False)   # identifiers / references
            for f in dataclasses.fields(o):
                if not f.compare:
                    continue
                v = getattr(o, f.name)
                key = (type(o).__name__, f.name, v is None)
                if not frozen and not _is_dc(v) and not isinstance(v, (list, tuple, dict)) and done.get(key, 0) < 1:
                    ok, _nv = new_value(type(o), f.name, v, hints.get(f.name))
                    if ok:
                        done[key] = done.get(key, 0) + 1
                        yield (f"{path}.{f.name}", o, f.name, v, hints.get(f.name))
                yield from walk(v, f"{path}.{f.name}")
        elif isinstance(o, (list, tuple)):
            for i, x in enumerate(o):
                nm = getattr(x, "short_name", None)
                yield from walk(x, f"{path}[{nm if isinstance(nm, str) else i}]")
        elif isinstance(o, dict):
            for k, x in o.items():
                yield from walk(x, f"{path}{{{k}}}")
    for k, r in roots(db):
        yield from walk(r, k)


def list_sites(db: Any) -> Iterator[Tuple[str, Any, str]]:
    """(path, object, field) for the first non-empty list of references / short names of every (class, field): emptying it
    leaves a valid, different document (e.g. an AUDIENCE that consists of flags only)"""
    seen_ids: set = set()  # type: ignore[type-arg]
    done: set = set()      # type: ignore[type-arg]

    def leaf(x: Any) -> bool:
        return isinstance(x, str) or type(x).__name__ == "OdxLinkRef"

    def walk(o: Any, path: str) -> Iterator[Tuple[str, Any, str]]:
        if _is_dc(o):
            if id(o) in seen_ids:
                return
            seen_ids.add(id(o))
            for f in dataclasses.fields(o):
                if not f.compare:
                    continue
                v = getattr(o, f.name)
                if isinstance(v, list) and v and all(leaf(x) for x in v) and (type(o).__name__, f.name) not in done \
                        and f.name not in ("doc_fragments", "ref_docs"):
                    done.add((type(o).__name__, f.name))
                    yield (f"{path}.{f.name}", o, f.name)
                yield from walk(v, f"{path}.{f.name}")
        elif isinstance(o, (list, tuple)):
            for i, x in enumerate(o):
                nm = getattr(x, "short_name", None)
                yield from walk(x, f"{path}[{nm if isinstance(nm, str) else i}]")
        elif isinstance(o, dict):
            for k, x in o.items():
                yield from walk(x, f"{path}{{{k}}}")
    for k, r in roots(db):
        yield from walk(r, k)


def resolve_path(db: Any, path: str) -> Tuple[Any, str]:
    """object and field name addressed by a path produced by sites() / diff()"""
    import re
    m = re.match(r"^(container|comparam_subset|comparam_spec)\[([^\]]*)\](.*)$", path)
    if not m:
        raise KeyError(path)
    o: Any = dict(roots(db))[f"{m.group(1)}[{m.group(2)}]"]
    toks = re.findall(r"\.([A-Za-z_0-9]+)|\[([^\]]*)\]|\{([^}]*)\}", m.group(3))
    parent, last = None, ""
    for (attr, idx, key) in toks:
        if attr:
            parent, last = o, attr
            o = getattr(o, attr)
        elif key:
            o = o[key]
        else:
            hit = [x for x in o if getattr(x, "short_name", None) == idx]
            o = hit[0] if hit else o[int(idx)]
    return parent, last


# ---------------------------------------------------------------------------------------
# archives and entry points

def odx_members(pdx: bytes) -> Dict[str, bytes]:
    with zipfile.ZipFile(io.BytesIO(pdx)) as z:
        return {n: z.read(n) for n in z.namelist() if Path(n).suffix.lower().startswith(".odx")}


def all_members(pdx: bytes) -> Dict[str, bytes]:
    with zipfile.ZipFile(io.BytesIO(pdx)) as z:
        return {n: z.read(n) for n in z.namelist()}


def content_members(pdx: bytes) -> Dict[str, bytes]:
    """every member but the catalogue (which carries creation dates): the ODX documents and the auxiliary files"""
    return {n: b for n, b in all_members(pdx).items() if n != "index.xml"}


def make_archive(path: str, members: List[Tuple[str, bytes]]) -> None:
    with zipfile.ZipFile(path, "w", zipfile.ZIP_DEFLATED) as z:
        for (n, data) in members:
            z.writestr(n, data)


def write_db(db: Any, path: str) -> bytes:
    from odxtools.writepdxfile import write_pdx_file
    write_pdx_file(path, db)
    return open(path, "rb").read()


def load_entry(entry: str, members: List[Tuple[str, bytes]], scratch: str) -> Any:
    """load the same documents through one of the three entry points, members in the given order"""
    import shutil
    from odxtools.loadfile import load_directory, load_files, load_pdx_file
    if os.path.exists(scratch):
        shutil.rmtree(scratch)
    os.makedirs(scratch)
    if entry == "archive":
        p = os.path.join(scratch, "x.pdx")
        make_archive(p, members)
        return load_pdx_file(p)
    d = os.path.join(scratch, "d")
    os.makedirs(d)
    for (n, data) in members:
        with open(os.path.join(d, n), "wb") as f:
            f.write(data)
    if entry == "directory":
        return load_directory(d)
    return load_files(*[os.path.join(d, n) for (n, _d) in members])
