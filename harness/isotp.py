"""ISO-TP machinery shared by C12 and C13: TLC model runs, graph replay, trace recording/validation."""
from __future__ import annotations

import asyncio
import copy
import io
import json
import random
from collections import deque
from typing import Any, Dict, List, Optional, Tuple

from . import tlc

CAN_ID = {0: 0x123, 1: 0x7E0, 2: 0x7E8, 3: 0x6F1}   # model ID -> CAN ID (0 = an ID nobody listens to)
TX_ID = {1: 0x6E0, 2: 0x6E8, 3: 0x5F1}             # IDs the active decoder answers on


class FakeBus:
    def __init__(self) -> None:
        self.sent: List[Tuple[int, bytes]] = []

    def send(self, msg: Any) -> None:
        self.sent.append((msg.arbitration_id, bytes(msg.data)))


def make_machine(nids: int, active: bool) -> Any:
    """The real reassembler with every callback recorded (the class is designed to be subclassed)."""
    from odxtools.isotp_state_machine import IsoTpActiveDecoder, IsoTpStateMachine
    base = IsoTpActiveDecoder if active else IsoTpStateMachine

    class Recording(base):  # type: ignore[valid-type, misc]
        cb: List[str]

        def on_single_frame(self, *a: Any) -> None:
            self.cb.append("sf")
            super().on_single_frame(*a)

        def on_first_frame(self, *a: Any) -> None:
            self.cb.append("ff")
            super().on_first_frame(*a)

        def on_consecutive_frame(self, *a: Any) -> None:
            self.cb.append("cf")
            super().on_consecutive_frame(*a)

        def on_flow_control_frame(self, *a: Any) -> None:
            self.cb.append("fc")
            super().on_flow_control_frame(*a)

        def on_sequence_error(self, *a: Any) -> None:
            self.cb.append("seqerr")
            super().on_sequence_error(*a)

        def on_frame_type_error(self, *a: Any) -> None:
            self.cb.append("typeerr")
            super().on_frame_type_error(*a)

        def on_telegram_complete(self, *a: Any) -> None:
            self.cb.append("complete")
            super().on_telegram_complete(*a)

    rx = [CAN_ID[i] for i in range(1, nids + 1)]
    if active:
        m = Recording(FakeBus(), rx, [TX_ID[i] for i in range(1, nids + 1)])
    else:
        m = Recording(rx)
    m.cb = []
    return m


def feed(m: Any, mid: int, frame: List[int], active: bool) -> Dict[str, Any]:
    """One decode_rx_frame call; returns the observation of that step."""
    m.cb = []
    if active:
        m._can_bus.sent = []
    out: List[List[int]] = []
    exc = ""
    try:
        for (cid, payload) in m.decode_rx_frame(CAN_ID[mid], bytes(frame)):
            if cid != CAN_ID[mid]:
                exc = "WrongIdReported"
            out.append(list(bytes(payload)))
    except Exception as e:  # noqa: BLE001
        exc = type(e).__name__
    fc = [list(d) for (cid, d) in (m._can_bus.sent if active else []) if mid in TX_ID and cid == TX_ID[mid]]
    other_fc = [1 for (cid, d) in (m._can_bus.sent if active else []) if not (mid in TX_ID and cid == TX_ID[mid])]
    if other_fc:
        exc = exc or "FlowControlOnWrongId"
    return {"ev": "frame", "id": mid, "data": list(frame), "out": out, "exc": exc, "cb": list(m.cb), "fc": fc,
            "active": active}


# ---------------------------------------------------------------------------------------
# model runs

def write_mc(wd: Any, *, nids: int, txdl: int, lens: List[List[int]], pad: bool, faults: int, noise: int, active: bool,
             invariants: List[str]) -> Tuple[str, str]:
    tl = ", ".join("<<" + ", ".join(str(x) for x in ls) + ">>" for ls in lens)
    (wd / "MCIsoTp.tla").write_text(f"---- MODULE MCIsoTp ----\nEXTENDS IsoTp\nMCLens == << {tl} >>\n====\n")
    cfg = (f"SPECIFICATION Spec\nCONSTANTS\n  NIds = {nids}\n  TxDl = {txdl}\n  Lens <- MCLens\n  Pad = {'TRUE' if pad else 'FALSE'}\n"
           f"  FaultBudget = {faults}\n  NoiseBudget = {noise}\n  Active = {'TRUE' if active else 'FALSE'}\n")
    cfg += "".join(f"INVARIANT {i}\n" for i in invariants) + "PROPERTY NoCrossTalk\n"
    (wd / "MCIsoTp.cfg").write_text(cfg)
    return "MCIsoTp.tla", "MCIsoTp.cfg"


PROCESS_ACTIONS = ("Deliver", "FlowControl", "Unrelated")


def replay_graph(g: tlc.Graph, nids: int, active: bool, stats: Dict[str, int],
                 rng: random.Random, want_walks: int) -> Tuple[List[List[Tuple[int, List[int]]]], List[Any]]:
    """Every edge of the model's state graph executed once on a (cloned) real reassembler.

    Returns (histories that did not conform to the implementation-shaped model, complete walks for the log readers).
    A history is a list of (model id, frame)."""
    if len(g.init) != 1:
        raise tlc.MachineryError("expected one initial state")
    out_edges: Dict[str, List[Tuple[str, str]]] = {}
    for (s, d, lbl) in g.edges:
        out_edges.setdefault(s, []).append((d, lbl))
    root = g.init[0]
    machines: Dict[str, Any] = {root: make_machine(nids, active)}
    hist: Dict[str, List[Tuple[int, List[int]]]] = {root: []}
    tainted: set = set()
    bad: List[List[Tuple[int, List[int]]]] = []
    q = deque([root])
    seen = {root}
    while q:
        n = q.popleft()
        for (d, lbl) in out_edges.get(n, []):
            act = lbl.split("(")[0]
            node = g.nodes[d]
            stats["edges"] += 1
            if n in tainted:
                stats["edges_skipped_after_nonconforming"] += 1
                if d not in seen:
                    seen.add(d)
                    tainted.add(d)
                    machines[d] = machines[n]
                    hist[d] = hist[n]
                    q.append(d)
                continue
            if act in PROCESS_ACTIONS:
                m = copy.deepcopy(machines[n])
                mid = int(node["lastId"])
                frame = list(node["lastFrame"])
                ob = feed(m, mid, frame, active)
                stats["frames"] += 1
                h = hist[n] + [(mid, frame)]
                want_out = [list(t) for t in node["out"]]
                ok = ob["exc"] == "" and ob["out"] == want_out
                if ok and mid != 0:
                    # the buffer is observable through the public accessor
                    r = node["rx"][mid - 1] if isinstance(node["rx"], tuple) else node["rx"][mid]
                    buf = m.telegram_data(mid - 1)
                    if r["has"] and (buf is None or list(buf) != list(r["buf"])):
                        ok = False
                if ok and active and int(node["fc"]) != len(ob["fc"]):
                    stats["fc_count_differs"] += 1
                if not ok:
                    stats["nonconforming"] += 1
                    if len(bad) < 3000:
                        bad.append(h)
            else:  # a fault: nothing reaches the receiver
                m = machines[n]
                h = hist[n]
                ok = True
                stats["fault_edges"] += 1
            if d not in seen:
                seen.add(d)
                machines[d] = m
                hist[d] = h
                if not ok:
                    tainted.add(d)
                q.append(d)
    if len(seen) != len(g.nodes):
        raise tlc.MachineryError(f"graph not connected: {len(seen)} of {len(g.nodes)}")
    # complete walks (until nothing is left to send) for the log readers / active decoder
    walks = []
    for _ in range(want_walks):
        n = root
        frames: List[Tuple[int, List[int]]] = []
        reports: List[Tuple[int, List[int]]] = []
        for _step in range(400):
            es = out_edges.get(n, [])
            deliver = [(d, lbl) for (d, lbl) in es]
            if not deliver:
                break
            d, lbl = rng.choice(deliver)
            if lbl.split("(")[0] in PROCESS_ACTIONS:
                node = g.nodes[d]
                frames.append((int(node["lastId"]), list(node["lastFrame"])))
                for t in node["out"]:
                    reports.append((int(node["lastId"]), list(t)))
            n = d
        walks.append((frames, reports, all(len(x) == 0 for x in _seq(g.nodes[n]["toSend"]))))
    return bad, walks


def _seq(v: Any) -> List[Any]:
    if isinstance(v, dict):
        return [v[k] for k in sorted(v)]
    return list(v)


# ---------------------------------------------------------------------------------------
# log text and the other entry points

def render_log(frames: List[Tuple[int, List[int]]], fmt: str) -> str:
    lines = []
    for n, (mid, f) in enumerate(frames):
        cid = CAN_ID[mid]
        if not f:
            continue  # an empty frame cannot be written in these formats
        if fmt == "normal":
            lines.append(f"  can0  {cid:03X}   [{len(f)}]  " + " ".join(f"{b:02X}" for b in f))
        elif fmt == "log":
            if len(f) > 8:
                lines.append(f"({1000 + n}.{n:06d}) can0 {cid:03X}##1" + "".join(f"{b:02X}" for b in f))
            else:
                lines.append(f"({1000 + n}.{n:06d}) can0 {cid:03X}#" + "".join(f"{b:02X}" for b in f))
        else:
            raise ValueError(fmt)
    return "\n".join(lines) + "\n"


def read_log(text: str, nids: int) -> Tuple[List[Tuple[int, List[int]]], str]:
    m = make_machine(nids, False)
    rev = {v: k for k, v in CAN_ID.items()}
    got: List[Tuple[int, List[int]]] = []

    async def run() -> None:
        async for (cid, payload) in m.read_telegrams(io.StringIO(text)):
            got.append((rev.get(cid, -1), list(bytes(payload))))

    try:
        asyncio.run(run())
    except Exception as e:  # noqa: BLE001
        return got, type(e).__name__
    return got, ""


# ---------------------------------------------------------------------------------------
# sender of the harness (used by the randomized driver; the TLC model has its own, in TLA+)

def segment(payload: List[int], txdl: int, pad: bool) -> List[List[int]]:
    def padded(f: List[int]) -> List[int]:
        n = len(f)
        if n > 8:
            tgt = min(s for s in (8, 12, 16, 20, 24, 32, 48, 64) if s >= n)
        else:
            tgt = 8 if pad else n
        return f + [0xCC] * (tgt - n)

    n = len(payload)
    sfmax = 7 if txdl == 8 else txdl - 2
    if n <= sfmax:
        return [padded(([n] if n <= 7 else [0, n]) + payload)]
    frames = [[0x10 | (n >> 8), n & 0xFF] + payload[:txdl - 2]]
    pos, sn = txdl - 2, 1
    while pos < n:
        frames.append(padded([0x20 | (sn % 16)] + payload[pos:pos + txdl - 1]))
        pos += txdl - 1
        sn += 1
    return frames


def record(histories: List[Tuple[List[Tuple[int, List[int]]], int, bool]], path: Any) -> Tuple[int, Dict[int, int]]:
    """Run each history (frames, nids, active) on a fresh real machine, write the ndjson; returns (#lines, starts)."""
    n = 0
    starts: Dict[int, int] = {}
    with open(path, "w") as f:
        for tid, (frames, nids, active) in enumerate(histories, 1):
            starts[tid] = n + 1
            m = make_machine(nids, active)
            f.write(json.dumps({"tid": tid, "ev": "init"}) + "\n")
            n += 1
            for (mid, fr) in frames:
                ob = feed(m, mid, fr, active)
                ob["tid"] = tid
                f.write(json.dumps(ob) + "\n")
                n += 1
    return n, starts


def validate(histories: List[Tuple[List[Tuple[int, List[int]]], int, bool]], stats: Dict[str, Any]
             ) -> List[Tuple[int, int, str, str]]:
    """TLC judges every line. Returns [(history index, event index, kind 'V'/'D', clause)] first per history."""
    if not histories:
        return []
    wd = tlc.workdir("isotptrace")
    try:
        tf = wd / "trace.ndjson"
        nlines, starts = record(histories, tf)
        res = tlc.run("IsoTpTrace.tla", "IsoTpTrace.cfg", workers=1, env={"TRACE_FILE": str(tf)}, timeout=3000)
        if not res.ok or res.distinct != nlines + 1:
            raise tlc.MachineryError(f"IsoTp trace validation did not consume the trace ({res.distinct} states, {nlines} "
                                     f"lines) {res.errors[:3]}\n{res.stdout[-1500:]}")
        stats["trace_lines"] = stats.get("trace_lines", 0) + nlines
        stats["traces_validated"] = stats.get("traces_validated", 0) + len(histories)
        stats["trace_tlc_s"] = round(stats.get("trace_tlc_s", 0) + res.wall_s, 1)
        first: Dict[Tuple[int, str], Tuple[int, str]] = {}
        for val in res.values():
            if isinstance(val, tuple) and len(val) == 4 and val[0] in ("V", "D"):
                tid, line = int(val[1]), int(val[2])
                first.setdefault((tid, val[0]), (line - starts[tid] - 1, str(val[3])))
        return [(tid - 1, ev, kind, clause) for ((tid, kind), (ev, clause)) in sorted(first.items())]
    finally:
        tlc.rmtree(wd)


# ---------------------------------------------------------------------------------------
# the two checks

MODEL_CFGS = {
    # (name, nids, txdl, lens, pad, faults, noise, active)
    ("C12", "quick"): [
        ("two_ids", 2, 8, [[1, 20, 8], [13, 7, 21]], False, 0, 1, False),
        ("padded_active", 2, 8, [[14, 20], [6, 15]], True, 0, 1, True),
        ("fd12", 1, 12, [[7, 8, 10, 11, 25]], False, 0, 1, False),
        ("wrap", 1, 8, [[125, 3]], False, 0, 1, True),
        ("three_ids", 3, 8, [[1, 20], [8, 14], [13]], False, 0, 0, False),
    ],
    ("C12", "thorough"): [
        ("two_ids", 2, 8, [[1, 8, 20], [13, 7, 14]], False, 0, 2, False),
        ("padded_active", 2, 8, [[14, 20, 21], [6, 13]], True, 0, 2, True),
        ("fd12", 2, 12, [[7, 8, 10, 11, 25], [10, 33]], False, 0, 1, False),
        ("fd64", 2, 64, [[7, 8, 62, 63, 130], [62, 200]], True, 0, 1, True),
        ("wrap", 1, 8, [[125, 3, 250]], False, 0, 2, True),
        ("three_ids", 3, 8, [[1, 9, 13], [8, 14], [13, 20]], False, 0, 1, False),
    ],
    ("C13", "quick"): [
        ("one_fault", 1, 8, [[3, 13, 8]], False, 1, 0, False),
        ("one_fault_2ids", 2, 8, [[13], [8, 2]], True, 1, 0, True),
        ("two_faults", 1, 8, [[8, 5]], False, 2, 0, False),
        ("fd_fault", 1, 12, [[10, 25]], False, 1, 0, False),
    ],
    ("C13", "thorough"): [
        ("one_fault", 1, 8, [[3, 13, 8, 20]], False, 1, 1, False),
        ("one_fault_2ids", 2, 8, [[13, 7], [8, 2]], True, 1, 1, True),
        ("two_faults", 1, 8, [[8, 5, 13]], False, 2, 0, False),
        ("two_faults_2ids", 2, 8, [[8], [13]], False, 2, 0, True),
        ("fd_fault", 1, 12, [[10, 25, 7]], False, 2, 0, False),
        ("wrap_fault", 1, 8, [[125]], False, 1, 0, False),
    ],
}

INVARIANTS = ["MonitorOk", "InOrder", "AllDelivered", "FcPerFf", "TypeOk"]


def random_wellformed(rng: random.Random, nids: int, lengths: List[int], txdl: int, pad: bool, noise: float
                      ) -> Tuple[List[Tuple[int, List[int]]], List[Tuple[int, List[int]]]]:
    """An interleaving of well-formed transfers; returns (frames, telegrams in completion order per id)."""
    queues: Dict[int, List[List[int]]] = {i: [] for i in range(1, nids + 1)}
    sent: List[Tuple[int, List[int]]] = []
    for n, ln in enumerate(lengths):
        i = rng.randint(1, nids)
        payload = [rng.randrange(256) for _ in range(ln)]
        sent.append((i, payload))
        queues[i] += segment(payload, txdl, pad)
    frames: List[Tuple[int, List[int]]] = []
    while any(queues.values()):
        r = rng.random()
        if r < noise / 2:
            frames.append((0, [rng.randrange(256) for _ in range(rng.randint(1, 8))]))
            continue
        if r < noise:
            frames.append((rng.randint(1, nids), [0x30, rng.randrange(256), rng.randrange(20)] + ([0xCC] * 5 if pad else [])))
            continue
        i = rng.choice([k for k, q in queues.items() if q])
        frames.append((i, queues[i].pop(0)))
    return frames, sent


def inject_faults(rng: random.Random, frames: List[Tuple[int, List[int]]], nfaults: int, nids: int
                  ) -> List[Tuple[int, List[int]]]:
    fr = [(i, list(f)) for (i, f) in frames]
    for _ in range(nfaults):
        if not fr:
            break
        k = rng.randrange(len(fr))
        kind = rng.choice(["drop", "dup", "swap", "trunc", "pci", "inject_cf", "inject_fc", "inject_empty", "inject_ff",
                           "random"])
        i, f = fr[k]
        if kind == "drop":
            del fr[k]
        elif kind == "dup":
            fr.insert(k, (i, list(f)))
        elif kind == "swap" and k + 1 < len(fr):
            fr[k], fr[k + 1] = fr[k + 1], fr[k]
        elif kind == "trunc":
            fr[k] = (i, f[:rng.randint(0, max(0, len(f) - 1))])
        elif kind == "pci" and f:
            fr[k] = (i, [rng.randrange(256)] + f[1:])
        elif kind == "inject_cf":
            fr.insert(k, (rng.randint(1, nids), [0x20 | rng.randrange(16)] + [rng.randrange(256) for _ in range(rng.randint(0, 7))]))
        elif kind == "inject_fc":
            fr.insert(k, (rng.randint(1, nids), [0x30, 0, 0]))
        elif kind == "inject_empty":
            fr.insert(k, (rng.randint(1, nids), []))
        elif kind == "inject_ff":
            fr.insert(k, (rng.randint(1, nids), [0x10 | rng.randrange(16), rng.randrange(256)] + [rng.randrange(256) for _ in range(rng.randint(0, 6))]))
        else:
            fr.insert(k, (rng.randint(0, nids), [rng.randrange(256) for _ in range(rng.randint(0, 12))]))
    return fr


def check(prop: str, tier: str, replay: Optional[str]) -> int:
    from .common import Verdicts, import_repo, seed
    import_repo()
    v = Verdicts(prop, tier)
    rng = random.Random(seed() * 7919 + (12 if prop == "C12" else 13))
    stats: Dict[str, Any] = {"edges": 0, "frames": 0, "nonconforming": 0, "fault_edges": 0, "fc_count_differs": 0,
                             "edges_skipped_after_nonconforming": 0, "log_walks": 0}

    def judge(histories: List[Tuple[List[Tuple[int, List[int]]], int, bool]], origin: str) -> None:
        for (hi, evi, kind, clause) in validate(histories, stats):
            frames, nids, active = histories[hi]
            case = {"machine": "IsoTp", "origin": origin, "nids": nids, "active": active,
                    "frames": [[i, f] for (i, f) in frames[:evi + 1]],
                    "frame_kind": _kind(frames[evi][1]) if 0 <= evi < len(frames) else "?",
                    "failing_frame": frames[evi] if 0 <= evi < len(frames) else None}
            if kind == "V":
                v.fail(clause, case)
            else:
                v.diverge(clause, case)

    if replay and json.loads(open(replay).read()).get("machine") == "Snoop":
        from . import snoop
        snoop.check_into(v, prop, json.loads(open(replay).read()))
        return v.finish({"states": 1, "transitions": 1, "traces_validated_against_impl": 1, "samples": []}, ["replay of one snoop session"])
    if replay:
        case = json.loads(open(replay).read())
        hs = [([(int(i), list(f)) for (i, f) in case["frames"]], int(case["nids"]), bool(case["active"]))]
        if case.get("clause", "").startswith("log_"):
            _check_logs(v, stats, [(hs[0][0], case.get("expected_reports", []), True)], hs[0][1], "replay")
        judge(hs, "replay")
        return v.finish({"states": 1, "transitions": len(hs[0][0]), "traces_validated_against_impl": 1,
                         "samples": [case["frames"][:5]]}, ["replay of one recorded frame sequence"])

    states = transitions = 0
    design: Dict[str, Any] = {}
    samples: List[Any] = []
    suspects: List[Tuple[List[Tuple[int, List[int]]], int, bool]] = []
    sampled: List[Tuple[List[Tuple[int, List[int]]], int, bool]] = []
    for (name, nids, txdl, lens, pad, faults, noise, active) in MODEL_CFGS[(prop, tier)]:
        wd = tlc.workdir("isotp")
        try:
            mod, cfg = write_mc(wd, nids=nids, txdl=txdl, lens=lens, pad=pad, faults=faults, noise=noise, active=active,
                                invariants=INVARIANTS)
            res = tlc.run(mod, cfg, cwd=wd, extra=["-dump", "dot,actionlabels", str(wd / "g")], coverage=True)
            if not res.ok or res.distinct == 0:
                raise tlc.MachineryError(f"TLC failed on the IsoTp design ({name}): violated={res.violated} "
                                         f"errors={res.errors[:3]}\n{res.stdout[-3000:]}")
            design[name] = {"distinct": res.distinct, "generated": res.generated, "depth": res.depth,
                            "tlc_s": round(res.wall_s, 1),
                            "constants": f"NIds={nids} TxDl={txdl} Lens={lens} Pad={pad} Faults={faults} Noise={noise} "
                                         f"Active={active}"}
            print(f"[{prop}] TLC {name}: {res.distinct} distinct, {res.generated} generated, {res.wall_s:.1f}s", flush=True)
            states += res.distinct
            transitions += res.generated
            g = tlc.read_dot(wd / "g.dot")
            if len(g.nodes) != res.distinct:
                raise tlc.MachineryError(f"dot graph has {len(g.nodes)} nodes, TLC reported {res.distinct}")
            bad, walks = replay_graph(g, nids, active, stats, rng, 30 if tier == "quick" else 150)
            suspects += [(h, nids, active) for h in bad]
            for (frames, reports, complete) in walks[:6]:
                sampled.append((frames, nids, active))
            if prop == "C12":
                _check_logs(v, stats, walks, nids, name)
            if not samples and walks:
                samples.append({"model": name, "frames": [[i, bytes(f).hex()] for (i, f) in walks[0][0][:8]],
                                "reported": [[i, bytes(t).hex()] for (i, t) in walks[0][1][:4]]})
        finally:
            tlc.rmtree(wd)
    print(f"[{prop}] graph replay: {stats}", flush=True)
    judge(suspects, "graph-replay")
    judge(sampled, "graph-walk-sample")

    # direction B: executions beyond the modelled scope
    hs: List[Tuple[List[Tuple[int, List[int]]], int, bool]] = []
    expect: List[List[Tuple[int, List[int]]]] = []
    if prop == "C12":
        ntr = 60 if tier == "quick" else 400
        all_lengths = list(range(1, 4096))
        rng.shuffle(all_lengths)
        for k in range(ntr):
            txdl = rng.choice([8, 8, 8, 12, 16, 24, 64])
            if tier == "thorough":
                lengths = [all_lengths.pop() for _ in range(min(len(all_lengths), 11))] or [rng.randint(1, 4095)]
            else:
                lengths = [rng.choice([rng.randint(1, 30), rng.randint(1, 300), rng.randint(1, 4095)])
                           for _ in range(rng.randint(1, 5))]
                if k == 0:
                    lengths = [4095, 1, 4094]
            nids = rng.randint(1, 3)
            frames, sent = random_wellformed(rng, nids, lengths, txdl, rng.random() < 0.5, 0.15)
            hs.append((frames, nids, rng.random() < 0.3))
            expect.append(sent)
        _check_wellformed_end_to_end(v, stats, hs, expect)
    else:
        ntr = 300 if tier == "quick" else 3000
        for k in range(ntr):
            nids = rng.randint(1, 3)
            txdl = rng.choice([8, 8, 12, 64])
            if k % 3 == 2:
                frames = [(rng.randint(0, nids), [rng.choice([0, 1, 0x10, 0x21, 0x22, 0x30, rng.randrange(256)])] +
                           [rng.randrange(256) for _ in range(rng.randint(0, 10))] if rng.random() < 0.9 else [])
                          for _ in range(rng.randint(1, 40))]
            else:
                lengths = [rng.choice([rng.randint(1, 30), rng.randint(1, 200)]) for _ in range(rng.randint(1, 5))]
                frames, _ = random_wellformed(rng, nids, lengths, txdl, rng.random() < 0.5, 0.1)
                frames = inject_faults(rng, frames, rng.randint(1, 3), nids)
                # a clean transfer at the end: must be reassembled whatever happened before
                tail, _ = random_wellformed(rng, nids, [rng.randint(1, 40)], txdl, False, 0.0)
                frames += tail
            hs.append((frames, nids, rng.random() < 0.3))
    if prop == "C13":
        # the same faulty streams read from candump text: the readers must neither raise nor report anything but what the
        # frames fed one by one give
        for (frames, nids, _active) in hs:
            m = make_machine(nids, False)
            direct: List[Tuple[int, List[int]]] = []
            bad = False
            for (mid, f) in frames:
                if not f:
                    continue
                ob = feed(m, mid, f, False)
                bad = bad or bool(ob["exc"])
                direct += [(mid, t) for t in ob["out"]]
            if bad:
                continue          # reported by the trace validation below
            for fmt in ("normal", "log"):
                got, exc = read_log(render_log(frames, fmt), nids)
                stats["log_walks"] = stats.get("log_walks", 0) + 1
                if exc or got != direct:
                    v.fail("log_differs_from_frames", {"machine": "IsoTp", "origin": f"log:{fmt}", "nids": nids, "active": False,
                                                       "frames": [[i, f] for (i, f) in frames], "expected_reports": direct, "got": got,
                                                       "exc": exc, "frame_kind": "log"})
    snoop_stats: Dict[str, Any] = {}
    if prop == "C13":
        # the telegrams go on into the snoop tool's session machine (spec/Snoop.tla): no telegram makes it raise
        from . import snoop
        snoop_stats = snoop.check_into(v, prop)
        print(f"[{prop}] snoop sessions: {snoop_stats}", flush=True)
    judge(hs, "random")
    samples.append({"random_stream": [[i, bytes(f).hex()] for (i, f) in hs[0][0][:6]]})
    cov = {"states": states, "transitions": transitions,
           "traces_validated_against_impl": stats.get("traces_validated", 0) + stats["edges"],
           "evaluations": stats["frames"] + stats.get("trace_lines", 0),
           "distinct_nontrivial": stats["frames"],
           "rule": "every edge of the TLC state graph (all interleavings of the modelled frame streams" +
                   (", all single/double faults at every position" if prop == "C13" else "") +
                   ") executed once on a cloned real reassembler and compared with the model state; random streams "
                   "beyond the modelled scope judged line by line by TLC with the ghost monitor of IsoTp.tla",
           "exhaustive": True, "design": design, "replay": stats, "snoop": snoop_stats, "samples": samples}
    return v.finish(cov, ["TLC and the CommunityModules", "my reading of ISO 15765-2 in IsoTp.tla (sender side)",
                          "python-can Message objects in the fake bus", "the projection in harness/isotp.py"])


def _kind(f: List[int]) -> str:
    if not f:
        return "empty"
    return {0: "SF", 1: "FF", 2: "CF", 3: "FC"}.get(f[0] >> 4, "bad")


def _check_logs(v: Any, stats: Dict[str, Any], walks: List[Any], nids: int, name: str) -> None:
    """Same frames through the candump readers: same telegrams (C12)."""
    for (frames, reports, complete) in walks:
        for fmt in ("normal", "log"):
            got, exc = read_log(render_log(frames, fmt), nids)
            stats["log_walks"] += 1
            want = [(i, t) for (i, t) in reports]
            if exc or got != want:
                v.fail(f"log_{fmt}", {"machine": "IsoTp", "origin": f"log:{name}", "nids": nids, "active": False,
                                      "frames": [[i, f] for (i, f) in frames], "expected_reports": want, "got": got,
                                      "exc": exc, "frame_kind": "log"})


def _check_wellformed_end_to_end(v: Any, stats: Dict[str, Any], hs: List[Any], expect: List[Any]) -> None:
    """Fault-free random streams: per ID exactly the transmitted payloads, in order, each once - through all entry points."""
    for (frames, nids, active), sent in zip(hs, expect):
        m = make_machine(nids, active)
        got: Dict[int, List[List[int]]] = {i: [] for i in range(1, nids + 1)}
        exc = ""
        nff = nfc = 0
        for (mid, f) in frames:
            ob = feed(m, mid, f, active)
            exc = exc or ob["exc"]
            for t in ob["out"]:
                got[mid].append(t)
            if active and mid != 0 and _kind(f) == "FF":
                nff += 1
                nfc += 1 if any(len(x) >= 3 and x[0] == 0x30 for x in ob["fc"]) else 0
        want: Dict[int, List[List[int]]] = {i: [] for i in range(1, nids + 1)}
        for (i, p) in sent:
            want[i].append(p)
        case = {"machine": "IsoTp", "origin": "random-wellformed", "nids": nids, "active": active,
                "frames": [[i, f] for (i, f) in frames], "frame_kind": "stream"}
        if exc or got != want:
            v.fail("exactly_once_in_order", dict(case, exc=exc))
        if nfc != nff:
            v.fail("no_flow_control", case)
        for fmt in ("normal", "log"):
            g2, e2 = read_log(render_log(frames, fmt), nids)
            stats["log_walks"] += 1
            per: Dict[int, List[List[int]]] = {i: [] for i in range(1, nids + 1)}
            for (i, t) in g2:
                per.setdefault(i, []).append(t)
            if e2 or per != want:
                v.fail(f"log_{fmt}", dict(case, exc=e2))
