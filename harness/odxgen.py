"""The harness's own ODX emitter: small Python descriptions -> ODX XML text -> odxtools.Database.

Deliberately independent of odxtools' jinja writer: everything the checks feed to the library enters
through the library's XML parsers, reference resolution and inheritance.
"""
from __future__ import annotations

from typing import Any, Dict, Iterable, List, Optional, Sequence, Tuple
from xml.etree import ElementTree as ET
from xml.sax.saxutils import escape

HEADER = ('<?xml version="1.0" encoding="UTF-8"?>\n<ODX MODEL-VERSION="2.2.0" '
          'xmlns:xsi="http://www.w3.org/2001/XMLSchema-instance">\n')


def _e(s: Any) -> str:
    return escape(str(s), {'"': "&quot;"})


def _attrs(**kw: Any) -> str:
    out = ""
    for k, v in kw.items():
        if v is None:
            continue
        if isinstance(v, bool):
            v = "true" if v else "false"
        out += f' {k.replace("_", "-")}="{_e(v)}"'
    return out


def tag(name: str, body: str = "", **attrs: Any) -> str:
    a = "".join(f' {k}="{_e(v)}"' for k, v in attrs.items() if v is not None)
    if body == "":
        return f"<{name}{a}/>"
    return f"<{name}{a}>{body}</{name}>"


def sn(name: str, long_name: Optional[str] = None) -> str:
    return f"<SHORT-NAME>{_e(name)}</SHORT-NAME>" + (f"<LONG-NAME>{_e(long_name)}</LONG-NAME>" if long_name else "")


def ref(tagname: str, idref: str, docref: Optional[str] = None, doctype: Optional[str] = None, **extra: Any) -> str:
    a = {"ID-REF": idref}
    if docref is not None:
        a["DOCREF"] = docref
        a["DOCTYPE"] = doctype or "CONTAINER"
    a.update(extra)
    return tag(tagname, "", **a)


def snref(tagname: str, name: str) -> str:
    return tag(tagname, "", **{"SHORT-NAME": name})


# ---------------------------------------------------------------------------------------
# diag coded types, compu methods, DOPs

def dct_standard(base: str, bits: int, *, enc: Optional[str] = None, hilo: Optional[bool] = None,
                 mask: Optional[int] = None, condensed: Optional[bool] = None) -> str:
    a: Dict[str, Any] = {"BASE-DATA-TYPE": base, "BASE-TYPE-ENCODING": enc,
                         "IS-HIGHLOW-BYTE-ORDER": None if hilo is None else ("true" if hilo else "false"),
                         "xsi:type": "STANDARD-LENGTH-TYPE"}
    body = f"<BIT-LENGTH>{bits}</BIT-LENGTH>"
    if mask is not None:
        nb = max(2, (mask.bit_length() + 7) // 8 * 2)
        body += f"<BIT-MASK>{mask:0{nb}X}</BIT-MASK>"
    if condensed is not None:
        a["IS-CONDENSED"] = "true" if condensed else "false"
    return tag("DIAG-CODED-TYPE", body, **a)


def dct_minmax(base: str, minlen: int, maxlen: Optional[int], termination: str, *, enc: Optional[str] = None,
               hilo: Optional[bool] = None) -> str:
    a = {"BASE-DATA-TYPE": base, "BASE-TYPE-ENCODING": enc, "TERMINATION": termination,
         "IS-HIGHLOW-BYTE-ORDER": None if hilo is None else ("true" if hilo else "false"),
         "xsi:type": "MIN-MAX-LENGTH-TYPE"}
    body = (f"<MAX-LENGTH>{maxlen}</MAX-LENGTH>" if maxlen is not None else "") + f"<MIN-LENGTH>{minlen}</MIN-LENGTH>"
    return tag("DIAG-CODED-TYPE", body, **a)


def dct_leading(base: str, bits: int, *, enc: Optional[str] = None, hilo: Optional[bool] = None) -> str:
    a = {"BASE-DATA-TYPE": base, "BASE-TYPE-ENCODING": enc,
         "IS-HIGHLOW-BYTE-ORDER": None if hilo is None else ("true" if hilo else "false"),
         "xsi:type": "LEADING-LENGTH-INFO-TYPE"}
    return tag("DIAG-CODED-TYPE", f"<BIT-LENGTH>{bits}</BIT-LENGTH>", **a)


def dct_paramlen(base: str, key_id: str, *, enc: Optional[str] = None, hilo: Optional[bool] = None) -> str:
    a = {"BASE-DATA-TYPE": base, "BASE-TYPE-ENCODING": enc,
         "IS-HIGHLOW-BYTE-ORDER": None if hilo is None else ("true" if hilo else "false"),
         "xsi:type": "PARAM-LENGTH-INFO-TYPE"}
    return tag("DIAG-CODED-TYPE", ref("LENGTH-KEY-REF", key_id), **a)


def limit(tagname: str, value: Any = None, itype: Optional[str] = None) -> str:
    a = {"INTERVAL-TYPE": itype}
    if value is None:
        return tag(tagname, "", **a)
    return tag(tagname, _e(value), **a)


def compu_scale(*, lower: Optional[str] = None, upper: Optional[str] = None, num: Optional[Sequence[Any]] = None,
                den: Optional[Sequence[Any]] = None, const_v: Any = None, const_vt: Optional[str] = None,
                inverse_v: Any = None, inverse_vt: Optional[str] = None) -> str:
    """lower/upper are already rendered <LOWER-LIMIT>/<UPPER-LIMIT> elements (see limit())."""
    body = (lower or "") + (upper or "")
    if inverse_v is not None or inverse_vt is not None:
        body += tag("COMPU-INVERSE-VALUE", (f"<V>{_e(inverse_v)}</V>" if inverse_v is not None else "") +
                    (f"<VT>{_e(inverse_vt)}</VT>" if inverse_vt is not None else ""))
    if const_v is not None or const_vt is not None:
        body += tag("COMPU-CONST", (f"<V>{_e(const_v)}</V>" if const_v is not None else "") +
                    (f"<VT>{_e(const_vt)}</VT>" if const_vt is not None else ""))
    if num is not None:
        c = tag("COMPU-NUMERATOR", "".join(f"<V>{_e(v)}</V>" for v in num))
        if den:
            c += tag("COMPU-DENOMINATOR", "".join(f"<V>{_e(v)}</V>" for v in den))
        body += tag("COMPU-RATIONAL-COEFFS", c)
    return tag("COMPU-SCALE", body) if body else "<COMPU-SCALE></COMPU-SCALE>"


def compu_method(category: str, scales: Optional[Sequence[str]] = None, *, inverse_scales: Optional[Sequence[str]] = None,
                 default_v: Any = None, default_vt: Optional[str] = None, default_inverse_v: Any = None) -> str:
    body = f"<CATEGORY>{category}</CATEGORY>"
    if scales is not None:
        inner = tag("COMPU-SCALES", "".join(scales)) if scales else ""
        if default_v is not None or default_vt is not None:
            d = (f"<V>{_e(default_v)}</V>" if default_v is not None else "") + \
                (f"<VT>{_e(default_vt)}</VT>" if default_vt is not None else "")
            if default_inverse_v is not None:
                d += tag("COMPU-INVERSE-VALUE", f"<V>{_e(default_inverse_v)}</V>")
            inner += tag("COMPU-DEFAULT-VALUE", d)
        body += tag("COMPU-INTERNAL-TO-PHYS", inner)
    if inverse_scales is not None:
        body += tag("COMPU-PHYS-TO-INTERNAL", tag("COMPU-SCALES", "".join(inverse_scales)))
    return tag("COMPU-METHOD", body)


IDENTICAL = "<COMPU-METHOD><CATEGORY>IDENTICAL</CATEGORY></COMPU-METHOD>"


def dop(oid: str, name: str, dct: str, *, compu: str = IDENTICAL, ptype: str = "A_UINT32",
        internal_constr: str = "", phys_constr: str = "", unit_ref: Optional[str] = None) -> str:
    body = sn(name) + compu + dct + tag("PHYSICAL-TYPE", "", **{"BASE-DATA-TYPE": ptype}) + internal_constr
    if unit_ref:
        body += ref("UNIT-REF", unit_ref)
    body += phys_constr
    return tag("DATA-OBJECT-PROP", body, ID=oid)


def dtc_dop(oid: str, name: str, dct: str, dtcs: Sequence[Tuple[str, str, int, str]], *, compu: str = IDENTICAL,
            ptype: str = "A_UINT32", linked: Sequence[Tuple[str, Sequence[str]]] = (), dtc_refs: Sequence[str] = ()) -> str:
    """dtcs: (id, short name, trouble code, text); dtc_refs: ids of trouble codes defined by other DTC-DOPs"""
    d = "".join(tag("DTC", sn(s) + f"<TROUBLE-CODE>{tc}</TROUBLE-CODE><TEXT>{_e(txt)}</TEXT>", ID=i)
                for (i, s, tc, txt) in dtcs) + "".join(ref("DTC-REF", i) for i in dtc_refs)
    body = sn(name) + dct + tag("PHYSICAL-TYPE", "", **{"BASE-DATA-TYPE": ptype}) + compu + tag("DTCS", d)
    if linked:
        # (id of the linked DTC-DOP, short names of its DTCs that are not inherited)
        body += tag("LINKED-DTC-DOPS", "".join(
            tag("LINKED-DTC-DOP", (tag("NOT-INHERITED-DTC-SNREFS", "".join(snref("NOT-INHERITED-DTC-SNREF", n) for n in ni)) if ni else "") +
                ref("DTC-DOP-REF", lid)) for (lid, ni) in linked))
    return tag("DTC-DOP", body, ID=oid)


# ---------------------------------------------------------------------------------------
# parameters

def param(ptype: str, name: str, *, bytepos: Optional[int] = None, bitpos: Optional[int] = None, semantic: Optional[str] = None,
          body: str = "", oid: Optional[str] = None, sysparam: Optional[str] = None) -> str:
    b = sn(name)
    if bytepos is not None:
        b += f"<BYTE-POSITION>{bytepos}</BYTE-POSITION>"
    if bitpos is not None:
        b += f"<BIT-POSITION>{bitpos}</BIT-POSITION>"
    a: Dict[str, Any] = {"SEMANTIC": semantic, "ID": oid, "SYSPARAM": sysparam, "xsi:type": ptype}
    return tag("PARAM", b + body, **a)


def p_const(name: str, value: Any, dct: str, **kw: Any) -> str:
    return param("CODED-CONST", name, body=f"<CODED-VALUE>{_e(value)}</CODED-VALUE>" + dct, **kw)


def p_const8(name: str, value: int, **kw: Any) -> str:
    return p_const(name, value, dct_standard("A_UINT32", 8), **kw)


def p_value(name: str, dop_id: Optional[str] = None, *, dop_snref: Optional[str] = None, default: Any = None,
            docref: Optional[str] = None, doctype: Optional[str] = None, **kw: Any) -> str:
    b = ""
    if default is not None:
        b += f"<PHYSICAL-DEFAULT-VALUE>{_e(default)}</PHYSICAL-DEFAULT-VALUE>"
    b += ref("DOP-REF", dop_id, docref, doctype) if dop_id else snref("DOP-SNREF", dop_snref or "")
    return param("VALUE", name, body=b, **kw)


def p_physconst(name: str, value: Any, dop_id: str, **kw: Any) -> str:
    return param("PHYS-CONST", name, body=f"<PHYS-CONSTANT-VALUE>{_e(value)}</PHYS-CONSTANT-VALUE>" + ref("DOP-REF", dop_id), **kw)


def p_reserved(name: str, bits: int, **kw: Any) -> str:
    return param("RESERVED", name, body=f"<BIT-LENGTH>{bits}</BIT-LENGTH>", **kw)


def p_matching(name: str, request_bytepos: int, bytelen: int, *, bytepos: Optional[int] = None, **kw: Any) -> str:
    # REQUEST-BYTE-POS comes right after BYTE-POSITION in the schema
    b = sn(name)
    if bytepos is not None:
        b += f"<BYTE-POSITION>{bytepos}</BYTE-POSITION>"
    b += f"<REQUEST-BYTE-POS>{request_bytepos}</REQUEST-BYTE-POS><BYTE-LENGTH>{bytelen}</BYTE-LENGTH>"
    return tag("PARAM", b, **{"SEMANTIC": kw.get("semantic"), "xsi:type": "MATCHING-REQUEST-PARAM"})


def p_nrc(name: str, values: Sequence[int], dct: str, **kw: Any) -> str:
    return param("NRC-CONST", name,
                 body=tag("CODED-VALUES", "".join(f"<CODED-VALUE>{v}</CODED-VALUE>" for v in values)) + dct, **kw)


def p_lengthkey(name: str, oid: str, dop_id: str, **kw: Any) -> str:
    return param("LENGTH-KEY", name, body=ref("DOP-REF", dop_id), oid=oid, **kw)


def p_tablekey(name: str, oid: str, *, table_ref: Optional[str] = None, table_snref: Optional[str] = None,
               row_ref: Optional[str] = None, row_snref: Optional[str] = None, **kw: Any) -> str:
    b = ""
    if table_ref:
        b += ref("TABLE-REF", table_ref)
    if table_snref:
        b += snref("TABLE-SNREF", table_snref)
    if row_snref:
        b += snref("TABLE-ROW-SNREF", row_snref)
    if row_ref:
        b += ref("TABLE-ROW-REF", row_ref)
    return param("TABLE-KEY", name, body=b, oid=oid, **kw)


def p_tablestruct(name: str, *, key_ref: Optional[str] = None, key_snref: Optional[str] = None, **kw: Any) -> str:
    b = ref("TABLE-KEY-REF", key_ref) if key_ref else snref("TABLE-KEY-SNREF", key_snref or "")
    return param("TABLE-STRUCT", name, body=b, **kw)


def p_system(name: str, sysparam: str, dop_id: str, **kw: Any) -> str:
    return param("SYSTEM", name, body=ref("DOP-REF", dop_id), sysparam=sysparam, **kw)


# ---------------------------------------------------------------------------------------
# complex DOPs

def structure(oid: str, name: str, params: Sequence[str], *, bytesize: Optional[int] = None) -> str:
    b = sn(name) + (f"<BYTE-SIZE>{bytesize}</BYTE-SIZE>" if bytesize is not None else "") + tag("PARAMS", "".join(params))
    return tag("STRUCTURE", b, ID=oid)


def _structref(struct_id: Optional[str], struct_snref: Optional[str]) -> str:
    return ref("BASIC-STRUCTURE-REF", struct_id) if struct_id else snref("BASIC-STRUCTURE-SNREF", struct_snref or "")


def end_of_pdu_field(oid: str, name: str, struct_id: Optional[str] = None, *, struct_snref: Optional[str] = None,
                     minitems: Optional[int] = None, maxitems: Optional[int] = None) -> str:
    b = sn(name) + _structref(struct_id, struct_snref)
    if maxitems is not None:
        b += f"<MAX-NUMBER-OF-ITEMS>{maxitems}</MAX-NUMBER-OF-ITEMS>"
    if minitems is not None:
        b += f"<MIN-NUMBER-OF-ITEMS>{minitems}</MIN-NUMBER-OF-ITEMS>"
    return tag("END-OF-PDU-FIELD", b, ID=oid)


def static_field(oid: str, name: str, struct_id: Optional[str], n: int, itemsize: int, *, struct_snref: Optional[str] = None) -> str:
    b = sn(name) + _structref(struct_id, struct_snref) + f"<FIXED-NUMBER-OF-ITEMS>{n}</FIXED-NUMBER-OF-ITEMS>" \
        f"<ITEM-BYTE-SIZE>{itemsize}</ITEM-BYTE-SIZE>"
    return tag("STATIC-FIELD", b, ID=oid)


def dynamic_length_field(oid: str, name: str, struct_id: Optional[str], offset: int, count_bytepos: int, count_dop: str, *,
                         count_bitpos: Optional[int] = None, struct_snref: Optional[str] = None) -> str:
    d = f"<BYTE-POSITION>{count_bytepos}</BYTE-POSITION>" + \
        (f"<BIT-POSITION>{count_bitpos}</BIT-POSITION>" if count_bitpos is not None else "") + \
        ref("DATA-OBJECT-PROP-REF", count_dop)
    b = sn(name) + _structref(struct_id, struct_snref) + f"<OFFSET>{offset}</OFFSET>" + tag("DETERMINE-NUMBER-OF-ITEMS", d)
    return tag("DYNAMIC-LENGTH-FIELD", b, ID=oid)


def dynamic_endmarker_field(oid: str, name: str, struct_id: Optional[str], end_dop: str, termination: Any, *,
                            struct_snref: Optional[str] = None) -> str:
    b = sn(name) + _structref(struct_id, struct_snref) + \
        tag("DYN-END-DOP-REF", f"<TERMINATION-VALUE>{_e(termination)}</TERMINATION-VALUE>", **{"ID-REF": end_dop})
    return tag("DYNAMIC-ENDMARKER-FIELD", b, ID=oid)


def mux(oid: str, name: str, bytepos: int, key_bytepos: int, key_dop: str, cases: Sequence[Tuple[str, Any, Any, Optional[str]]],
        *, default: Optional[Tuple[str, Optional[str]]] = None, key_bitpos: Optional[int] = None,
        use_snref: bool = False) -> str:
    """cases: (short name, lower, upper, structure id or None); default: (short name, structure id or None)"""
    def sref(sid: Optional[str]) -> str:
        if sid is None:
            return ""
        return snref("STRUCTURE-SNREF", sid) if use_snref else ref("STRUCTURE-REF", sid)
    sk = f"<BYTE-POSITION>{key_bytepos}</BYTE-POSITION>" + \
        (f"<BIT-POSITION>{key_bitpos}</BIT-POSITION>" if key_bitpos is not None else "") + ref("DATA-OBJECT-PROP-REF", key_dop)
    b = sn(name) + f"<BYTE-POSITION>{bytepos}</BYTE-POSITION>" + tag("SWITCH-KEY", sk)
    if default is not None:
        b += tag("DEFAULT-CASE", sn(default[0]) + sref(default[1]))
    cs = "".join(tag("CASE", sn(n_) + sref(sid) + limit("LOWER-LIMIT", lo) + limit("UPPER-LIMIT", hi))
                 for (n_, lo, hi, sid) in cases)
    if cs:
        b += tag("CASES", cs)
    return tag("MUX", b, ID=oid)


def table(oid: str, name: str, key_dop: Optional[str], rows: Sequence[Tuple[str, str, Any, Optional[str], Optional[str]]],
          *, semantic: Optional[str] = None) -> str:
    """rows: (id, short name, key, structure id or None, dop id or None)"""
    b = sn(name) + (ref("KEY-DOP-REF", key_dop) if key_dop else "")
    for (rid, rname, key, sid, did) in rows:
        rb = sn(rname) + f"<KEY>{_e(key)}</KEY>"
        if did:
            rb += ref("DATA-OBJECT-PROP-REF", did)
        if sid:
            rb += ref("STRUCTURE-REF", sid)
        b += tag("TABLE-ROW", rb, ID=rid)
    return tag("TABLE", b, ID=oid, SEMANTIC=semantic)


def env_data(oid: str, name: str, params: Sequence[str], dtc_values: Optional[Sequence[int]] = None) -> str:
    b = sn(name) + tag("PARAMS", "".join(params))
    if dtc_values:
        b += tag("DTC-VALUES", "".join(f"<DTC-VALUE>{v}</DTC-VALUE>" for v in dtc_values))
    else:
        b += "<ALL-VALUE/>"
    return tag("ENV-DATA", b, ID=oid)


def env_data_desc(oid: str, name: str, param_snref: str, env_data_ids: Sequence[str]) -> str:
    b = sn(name) + snref("PARAM-SNREF", param_snref) + tag("ENV-DATA-REFS", "".join(ref("ENV-DATA-REF", i) for i in env_data_ids))
    return tag("ENV-DATA-DESC", b, ID=oid)


# ---------------------------------------------------------------------------------------
# requests, responses, services, layers

def request(oid: str, name: str, params: Sequence[str]) -> str:
    return tag("REQUEST", sn(name) + (tag("PARAMS", "".join(params)) if params else ""), ID=oid)


def response(kind: str, oid: str, name: str, params: Sequence[str]) -> str:
    """kind: POS-RESPONSE | NEG-RESPONSE | GLOBAL-NEG-RESPONSE"""
    return tag(kind, sn(name) + (tag("PARAMS", "".join(params)) if params else ""), ID=oid)


def service(oid: str, name: str, request_id: Optional[str], pos: Sequence[str] = (), neg: Sequence[str] = (), *,
            semantic: Optional[str] = None, funct_class_refs: Sequence[str] = (), addressing: Optional[str] = None) -> str:
    b = sn(name)
    if funct_class_refs:
        b += tag("FUNCT-CLASS-REFS", "".join(ref("FUNCT-CLASS-REF", i) for i in funct_class_refs))
    if request_id:
        b += ref("REQUEST-REF", request_id)
    if pos:
        b += tag("POS-RESPONSE-REFS", "".join(ref("POS-RESPONSE-REF", i) for i in pos))
    if neg:
        b += tag("NEG-RESPONSE-REFS", "".join(ref("NEG-RESPONSE-REF", i) for i in neg))
    return tag("DIAG-SERVICE", b, ID=oid, SEMANTIC=semantic, ADDRESSING=addressing)


def single_ecu_job(oid: str, name: str) -> str:
    pc = tag("PROG-CODE", "<CODE-FILE>job.py</CODE-FILE><SYNTAX>PYTHON3</SYNTAX><REVISION>1</REVISION>")
    return tag("SINGLE-ECU-JOB", sn(name) + tag("PROG-CODES", pc), ID=oid)


def parent_ref(layer_id: str, layer_type: str, container: str, *, ni_diag_comms: Sequence[str] = (),
               ni_dops: Sequence[str] = (), ni_tables: Sequence[str] = (), ni_gnrs: Sequence[str] = (),
               ni_vars: Sequence[str] = ()) -> str:
    b = ""
    if ni_diag_comms:
        b += tag("NOT-INHERITED-DIAG-COMMS", "".join(tag("NOT-INHERITED-DIAG-COMM", snref("DIAG-COMM-SNREF", n)) for n in ni_diag_comms))
    if ni_vars:
        b += tag("NOT-INHERITED-VARIABLES", "".join(tag("NOT-INHERITED-VARIABLE", snref("DIAG-VARIABLE-SNREF", n)) for n in ni_vars))
    if ni_dops:
        b += tag("NOT-INHERITED-DOPS", "".join(tag("NOT-INHERITED-DOP", snref("DOP-BASE-SNREF", n)) for n in ni_dops))
    if ni_tables:
        b += tag("NOT-INHERITED-TABLES", "".join(tag("NOT-INHERITED-TABLE", snref("TABLE-SNREF", n)) for n in ni_tables))
    if ni_gnrs:
        b += tag("NOT-INHERITED-GLOBAL-NEG-RESPONSES",
                 "".join(tag("NOT-INHERITED-GLOBAL-NEG-RESPONSE", snref("GLOBAL-NEG-RESPONSE-SNREF", n)) for n in ni_gnrs))
    a = {"ID-REF": layer_id, "DOCREF": container, "DOCTYPE": "CONTAINER", "xsi:type": f"{layer_type}-REF"}
    return tag("PARENT-REF", b, **a) if b else tag("PARENT-REF", "", **a)


def matching_parameter(expected: str, service_name: str, *, out_snref: Optional[str] = None, out_snpathref: Optional[str] = None,
                       base_variant: bool = False, physical: Optional[bool] = None) -> str:
    b = f"<EXPECTED-VALUE>{_e(expected)}</EXPECTED-VALUE>"
    if base_variant and physical is not None:
        b += f"<USE-PHYSICAL-ADDRESSING>{'true' if physical else 'false'}</USE-PHYSICAL-ADDRESSING>"
    b += snref("DIAG-COMM-SNREF", service_name)
    if out_snref is not None:
        b += snref("OUT-PARAM-IF-SNREF", out_snref)
    if out_snpathref is not None:
        b += tag("OUT-PARAM-IF-SNPATHREF", "", **{"SHORT-NAME-PATH": out_snpathref})
    return tag("MATCHING-BASE-VARIANT-PARAMETER" if base_variant else "MATCHING-PARAMETER", b)


def ecu_variant_patterns(patterns: Sequence[Sequence[str]]) -> str:
    if not patterns:
        return ""
    return tag("ECU-VARIANT-PATTERNS",
               "".join(tag("ECU-VARIANT-PATTERN", tag("MATCHING-PARAMETERS", "".join(mps))) for mps in patterns))


def base_variant_pattern(mps: Sequence[str]) -> str:
    return tag("BASE-VARIANT-PATTERN", tag("MATCHING-BASE-VARIANT-PARAMETERS", "".join(mps)))


LAYER_TAGS = {"PROTOCOL": ("PROTOCOLS", "PROTOCOL"), "FUNCTIONAL-GROUP": ("FUNCTIONAL-GROUPS", "FUNCTIONAL-GROUP"),
              "ECU-SHARED-DATA": ("ECU-SHARED-DATAS", "ECU-SHARED-DATA"), "BASE-VARIANT": ("BASE-VARIANTS", "BASE-VARIANT"),
              "ECU-VARIANT": ("ECU-VARIANTS", "ECU-VARIANT")}
LAYER_ORDER = ["PROTOCOL", "FUNCTIONAL-GROUP", "ECU-SHARED-DATA", "BASE-VARIANT", "ECU-VARIANT"]


class Layer:
    """Collects the pieces of one diagnostic layer and renders them in schema order."""

    def __init__(self, kind: str, oid: str, name: str) -> None:
        self.kind, self.oid, self.name = kind, oid, name
        self.funct_classes: List[str] = []
        self.dtc_dops: List[str] = []
        self.env_data_descs: List[str] = []
        self.dops: List[str] = []
        self.structures: List[str] = []
        self.static_fields: List[str] = []
        self.dl_fields: List[str] = []
        self.dem_fields: List[str] = []
        self.eopdu_fields: List[str] = []
        self.muxs: List[str] = []
        self.env_datas: List[str] = []
        self.unit_spec: str = ""
        self.tables: List[str] = []
        self.diag_comms: List[str] = []
        self.requests: List[str] = []
        self.pos_responses: List[str] = []
        self.neg_responses: List[str] = []
        self.gnrs: List[str] = []
        self.import_refs: List[str] = []
        self.state_charts: List[str] = []
        self.additional_audiences: List[str] = []
        self.comparam_refs: List[str] = []
        self.parent_refs: List[str] = []
        self.sub_components: List[str] = []
        self.libraries: List[str] = []
        self.layer_sdgs: str = ""        # SDGS of the layer
        self.layer_admin: str = ""       # ADMIN-DATA of the layer
        self.tail: str = ""              # DIAG-VARIABLES / VARIABLE-GROUPS / DYN-DEFINED-SPEC, verbatim
        self.patterns: str = ""          # ECU-VARIANT-PATTERNS / BASE-VARIANT-PATTERN
        self.comparam_spec_ref: str = ""  # PROTOCOL only
        self.prot_stack_snref: str = ""

    def render(self) -> str:
        b = sn(self.name) + self.layer_admin
        if self.funct_classes:
            b += tag("FUNCT-CLASSS", "".join(self.funct_classes))
        ddds = ""
        for (t, lst) in (("DTC-DOPS", self.dtc_dops), ("ENV-DATA-DESCS", self.env_data_descs),
                         ("DATA-OBJECT-PROPS", self.dops), ("STRUCTURES", self.structures),
                         ("STATIC-FIELDS", self.static_fields), ("DYNAMIC-LENGTH-FIELDS", self.dl_fields),
                         ("DYNAMIC-ENDMARKER-FIELDS", self.dem_fields), ("END-OF-PDU-FIELDS", self.eopdu_fields),
                         ("MUXS", self.muxs), ("ENV-DATAS", self.env_datas)):
            if lst:
                ddds += tag(t, "".join(lst))
        ddds += self.unit_spec
        if self.tables:
            ddds += tag("TABLES", "".join(self.tables))
        if ddds:
            b += tag("DIAG-DATA-DICTIONARY-SPEC", ddds)
        for (t, lst) in (("DIAG-COMMS", self.diag_comms), ("REQUESTS", self.requests), ("POS-RESPONSES", self.pos_responses),
                         ("NEG-RESPONSES", self.neg_responses), ("GLOBAL-NEG-RESPONSES", self.gnrs),
                         ("IMPORT-REFS", self.import_refs), ("STATE-CHARTS", self.state_charts),
                         ("ADDITIONAL-AUDIENCES", self.additional_audiences), ("SUB-COMPONENTS", self.sub_components),
                         ("LIBRARYS", self.libraries)):
            if lst:
                b += tag(t, "".join(lst))
        b += self.layer_sdgs
        if self.comparam_refs:
            b += tag("COMPARAM-REFS", "".join(self.comparam_refs))
        if self.kind == "PROTOCOL":
            b += self.comparam_spec_ref + self.prot_stack_snref
        b += self.tail
        if self.kind in ("BASE-VARIANT", "ECU-VARIANT"):
            b += self.patterns
        if self.parent_refs:
            b += tag("PARENT-REFS", "".join(self.parent_refs))
        return tag(self.kind, b, ID=self.oid)


def container(oid: str, name: str, layers: Sequence[Layer]) -> str:
    b = sn(name)
    for kind in LAYER_ORDER:
        ls = [l for l in layers if l.kind == kind]
        if ls:
            b += tag(LAYER_TAGS[kind][0], "".join(l.render() for l in ls))
    return HEADER + tag("DIAG-LAYER-CONTAINER", b, ID=oid) + "\n</ODX>\n"


def comparam_spec_doc(oid: str = "CS", name: str = "CS", body: str = "") -> str:
    return HEADER + tag("COMPARAM-SPEC", sn(name) + body, ID=oid) + "\n</ODX>\n"


def comparam_subset_doc(oid: str, name: str, body: str, category: str = "COM") -> str:
    return HEADER + tag("COMPARAM-SUBSET", sn(name) + body, ID=oid, CATEGORY=category) + "\n</ODX>\n"


def load(docs: Iterable[str]) -> Any:
    """XML texts -> refreshed odxtools Database (through the library's own parsers)."""
    from odxtools.database import Database
    import io
    db = Database()
    db.add_auxiliary_file("job.py", io.BytesIO(b"# code of the generated single ECU jobs\n"))
    for d in docs:
        db._process_xml_tree(ET.fromstring(d))
    db.refresh()
    return db
